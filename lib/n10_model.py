"""n10_model: input space, reformulations and reference model of check C10
("correlated observations are weighted by their full covariance matrix").

A *case* is a plain dict (json-able, replayable)
    kind   'obs' | 'height-differences' | 'coordinates' | 'vectors'
    comp   name of the composition of the cluster under test (COMPS[kind])
    band   0 .. dim-1
    fam    0 | 1 | 2    positive-definite value family (2: every variance == sigma-apr^2 exactly)
    excl   sorted list of excluded slots (0-based rows of the cluster)
    mode   'blunder' | 'point'   how gama is made to exclude them
    order  0 | 1        cluster under test written before / after the backbone
    noise  0 | 1        sign pattern of the +-sigma errors

build(case) returns the primary network and everything the oracles need.
All networks are tiny (<= 2 new points + helper points), approximate
coordinates are exact, there are no instrument heights.
"""
import math
import gnet
from gnet import Pt, Obs, Cluster, Net

SIG = 10.0            # mm resp. cc; sigma-apr = 10
M0 = 10.0
BLUNDER_M = 7.0       # metres, >> tol-abs (1000 mm)
KINDS = ["obs", "height-differences", "coordinates", "vectors"]


# ------------------------------------------------------------------ value families
def fam_value(f, i, j):
    """covariance (mm2 / cc2 / mm.cc) of rows i<=j (0-based); position coded:
    every (i,j) has its own value, so a misplaced element changes the matrix."""
    k = j - i
    if f == 0:
        if k == 0:
            return SIG * SIG * (1.00 + 0.13 * i)
        return SIG * SIG * (0.12 / k) * (1.0 + 0.05 * i + 0.02 * j)
    if f == 2:
        # every variance equals sigma-apr^2 EXACTLY (cofactor diagonal exactly 1,
        # "unit weights"), the covariances inside the band are not zero
        if k == 0:
            return SIG * SIG
        return SIG * SIG * ((-1) ** (k + 1)) * (0.11 / k) * (1.0 + 0.03 * i + 0.04 * j)
    if k == 0:
        return SIG * SIG * (1.70 - 0.11 * i)
    return SIG * SIG * ((-1) ** k) * (0.10 / k) * (1.0 + 0.04 * i + 0.03 * j)


def dense_cov(dim, band, fam):
    C = [[0.0] * dim for _ in range(dim)]
    for i in range(dim):
        for j in range(i, min(dim, i + band + 1)):
            C[i][j] = C[j][i] = float(gnet.fnum(fam_value(fam, i, j), 12))
    return C


def band_rows(C, band):
    n = len(C)
    return (band, [[C[i][j] for j in range(i, min(n, i + band + 1))] for i in range(n)])


def bandwidth(C):
    n = len(C); b = 0
    for i in range(n):
        for j in range(i + 1, n):
            if C[i][j] != 0.0:
                b = max(b, j - i)
    return b


def submatrix(C, keep):
    return [[C[i][j] for j in keep] for i in keep]


def chol(C):
    """lower Cholesky factor, raises ValueError when not positive definite"""
    n = len(C)
    L = [[0.0] * n for _ in range(n)]
    for i in range(n):
        for j in range(i + 1):
            s = C[i][j] - sum(L[i][k] * L[j][k] for k in range(j))
            if i == j:
                if s <= 0:
                    raise ValueError("not positive definite")
                L[i][i] = math.sqrt(s)
            else:
                L[i][j] = s / L[j][j]
    return L


def lower_inverse(L):
    n = len(L)
    X = [[0.0] * n for _ in range(n)]
    for c in range(n):
        for i in range(c, n):
            s = (1.0 if i == c else 0.0) - sum(L[i][k] * X[k][c] for k in range(c, i))
            X[i][c] = s / L[i][i]
    return X


def spd_inverse(C):
    Li = lower_inverse(chol(C))
    n = len(C)
    return [[sum(Li[k][i] * Li[k][j] for k in range(max(i, j), n)) for j in range(n)] for i in range(n)]


def sym_eigen_range(C):
    """(min, max) eigenvalue by cyclic Jacobi (tiny matrices)"""
    n = len(C)
    A = [r[:] for r in C]
    for _ in range(60):
        off = sum(A[i][j] ** 2 for i in range(n) for j in range(n) if i != j)
        if off < 1e-22:
            break
        for p in range(n):
            for q in range(p + 1, n):
                if abs(A[p][q]) < 1e-300:
                    continue
                th = (A[q][q] - A[p][p]) / (2 * A[p][q])
                t = (1 if th >= 0 else -1) / (abs(th) + math.sqrt(th * th + 1))
                c = 1 / math.sqrt(t * t + 1); s = t * c
                for k in range(n):
                    akp, akq = A[k][p], A[k][q]
                    A[k][p] = c * akp - s * akq; A[k][q] = s * akp + c * akq
                for k in range(n):
                    apk, aqk = A[p][k], A[q][k]
                    A[p][k] = c * apk - s * aqk; A[q][k] = s * apk + c * aqk
    d = [A[i][i] for i in range(n)]
    return min(d), max(d)


def check_families(maxdim=6):
    """the alphabet's promises: diagonally dominant, condition < 20, all
    elements of one matrix distinct"""
    worst = 0.0
    assert SIG == M0              # family 2: variance == sigma-apr^2
    for f in (0, 1, 2):
        for d in range(1, maxdim + 1):
            for b in range(d):
                C = dense_cov(d, b, f)
                for i in range(d):
                    assert C[i][i] > sum(abs(C[i][j]) for j in range(d) if j != i), (f, d, b)
                lo, hi = sym_eigen_range(C)
                assert lo > 0 and hi / lo < 20, (f, d, b, lo, hi)
                worst = max(worst, hi / lo)
                vals = [C[i][j] for i in range(d) for j in range(i, min(d, i + b + 1)) if not (f == 2 and i == j)]
                assert len(set(vals)) == len(vals), (f, d, b)
                if f == 2:
                    assert all(C[i][i] / (M0 * M0) == 1.0 for i in range(d)) and all(v != 0.0 for v in vals)
    return worst


# ------------------------------------------------------------------ compositions
# obs: sequence of D (direction) / S (distance) observed from the new point P to
# the targets A B C D (template 1) or A B C Q (template 2, Q new);
# 'r' = the same distance P->A repeated (whitening is expressible)
def _obs_comps():
    out = []
    for d in range(1, 5):
        for m in range(2 ** d):
            out.append("".join("DS"[(m >> k) & 1] for k in range(d)))
    out += ["rr", "rrr", "rrrr"]
    return out


COMPS = {
    "obs": _obs_comps(),
    # height differences: h = 1 new point, g = 2 new points, r = repeated A->P / P->A
    "height-differences": ["h1", "h2", "h3", "h4", "g2", "g3", "g4", "r2", "r3", "r4"],
    # coordinates: list of point entries (point, components)
    "coordinates": ["Pxy", "Pxyz", "Pxy+Qxy", "Pxyz+Qz", "Pz+Qxyz", "Pxyz+Qxy", "Pxy+Qxyz"],
    "vectors": ["AP", "AP+BP", "AP+PQ"],
}

H_SLOTS = {"h": [("P", "A"), ("B", "P"), ("A", "P"), ("P", "B")],
           "g": [("A", "P"), ("P", "Q"), ("Q", "B"), ("B", "P")],
           "r": [("A", "P"), ("P", "A"), ("A", "P"), ("A", "P")]}

SIGNS = [[+1, -1, -1, +1, +1, -1, +1, -1, -1, +1, -1, +1],
         [-1, -1, +1, -1, +1, +1, -1, +1, +1, +1, -1, -1]]
BSIGNS = [[-1, +1, +1, +1, -1, -1, +1, -1, +1, -1, -1, +1],
          [+1, +1, -1, +1, -1, +1, +1, -1, -1, -1, +1, -1]]


def comp_dim(kind, comp):
    if kind == "obs":
        return len(comp)
    if kind == "height-differences":
        return int(comp[1:])
    if kind == "coordinates":
        return sum(len(e) - 1 for e in comp.split("+"))
    return 3 * len(comp.split("+"))


def groups(kind, comp):
    """partition of the slots into the groups that the 'point' mechanism can
    exclude (and that a deleted input can express): list of lists of slots,
    with the element index of each group"""
    if kind in ("obs", "height-differences"):
        return [([s], s) for s in range(comp_dim(kind, comp))]
    out = []; s = 0
    if kind == "coordinates":
        for e, ent in enumerate(comp.split("+")):
            cs = ent[1:]
            if "x" in cs:
                out.append(([s, s + 1], e)); s += 2
            if "z" in cs:
                out.append(([s], e)); s += 1
        return out
    for e in range(len(comp.split("+"))):
        out.append(([s, s + 1], e)); out.append(([s + 2], e)); s += 3
    return out


def aligned(kind, comp, excl):
    ex = set(excl)
    return all(set(g) <= ex or not (set(g) & ex) for g, _ in groups(kind, comp))


def deletable(kind, comp, excl):
    """is 'the input with those members deleted' expressible?"""
    if not aligned(kind, comp, excl):
        return False
    if kind == "vectors":
        ex = set(excl)
        n = comp_dim(kind, comp) // 3
        return all(len(ex & {3 * e, 3 * e + 1, 3 * e + 2}) in (0, 3) for e in range(n))
    return True


def whitenable(kind, comp):
    return comp[0] == "r"


# ------------------------------------------------------------------ building a case
XY = {"A": (0.0, 0.0), "B": (200.0, 0.0), "C": (0.0, 100.0), "D": (200.0, 200.0),
      "P": (100.0, 100.0), "Q": (200.0, 100.0)}
ZZ = {"A": 0.0, "B": 30.0, "C": 10.0, "D": 0.0, "P": 10.0, "Q": 30.0}


def _noise(case, slot, sigma_unit, backbone=False):
    tab = (BSIGNS if backbone else SIGNS)[case.get("noise", 0)]
    # magnitudes 0.5 .. 1.1 sigma, different in every row, so that no two
    # rows can cancel and leave an accidentally consistent network
    f = 0.5 + 0.1 * ((3 * slot + (2 if backbone else 0)) % 7) + (0.013 * slot if backbone else 0.0)
    return tab[slot % len(tab)] * f * sigma_unit


def build(case):
    """returns dict: net (primary Net, values filled), ti (index of the cluster
    under test in net.clusters), C (dense dim x dim covariance), elems (list of
    (first slot, ndim) per element of the cluster), dim"""
    kind, comp = case["kind"], case["comp"]
    dim = comp_dim(kind, comp)
    band, fam = case["band"], case["fam"]
    excl = sorted(case.get("excl", []))
    mode = case.get("mode", "blunder")
    ex = set(excl)
    C = dense_cov(dim, band, fam)
    sd = [math.sqrt(C[i][i]) for i in range(dim)]
    pts = []
    extra = []           # helper points created by the 'point' mechanism
    elems = []

    def helper(name, like, xy, zs, declare=True):
        p = Pt(name, XY[like][0], XY[like][1], ZZ[like], xy=xy, zs=zs,
               ax=False if xy == "adj-nocoord" else True, az=True)
        if xy == "adj-nocoord":
            p.xy = "adj"
        p.declare = declare
        extra.append(p)
        return name

    if kind == "obs":
        two = comp[0] != "r" and case.get("tmpl", 1) == 2
        fixed = ["A", "B", "C"] + ([] if two else ["D"])
        new = ["P"] + (["Q"] if two else [])
        for n in fixed:
            pts.append(Pt(n, XY[n][0], XY[n][1], xy="fix"))
        for n in new:
            pts.append(Pt(n, XY[n][0], XY[n][1], xy="adj"))
        targets = ["A", "B", "C", "Q" if two else "D"]
        obs = []
        for s, ch in enumerate(comp):
            t = "A" if ch == "r" else targets[s]
            knd = "direction" if ch == "D" else "distance"
            unit = 1e-4 if knd == "direction" else 1e-3       # cc -> gon, mm -> m
            err = _noise(case, s, sd[s] * unit)
            if s in ex:
                if mode == "point" or knd == "direction":
                    # target without coordinates, observed by this element only
                    t = helper("U%d" % (s + 1), t, "adj-nocoord", None)
                else:
                    err += BLUNDER_M
            obs.append(Obs(knd, frm="P", to=t, err=err))
            elems.append((s, 1))
        test = Cluster("obs", obs, frm="P", cov=band_rows(C, band))
        bobs = []
        k = 0
        for n in new:
            for f in ["A", "B", "C"]:
                bobs.append(Obs("distance", frm=f, to=n, stdev=SIG, err=_noise(case, k, SIG * 1e-3, True)))
                k += 1
        if two:
            bobs.append(Obs("distance", frm="P", to="Q", stdev=SIG, err=_noise(case, k, SIG * 1e-3, True)))
        backbone = [Cluster("obs", bobs)]
    elif kind == "height-differences":
        t = comp[0]
        two = t == "g"
        for n in ["A", "B"]:
            pts.append(Pt(n, z=ZZ[n], zs="fix"))
        new = ["P"] + (["Q"] if two else [])
        for n in new:
            pts.append(Pt(n, z=ZZ[n], zs="adj"))
        obs = []
        for s in range(dim):
            fr, to = H_SLOTS[t][s]
            err = _noise(case, s, sd[s] * 1e-3)
            if s in ex:
                if mode == "point":
                    # target that is no point of the network: declared without
                    # status (even slots) or not declared at all (odd slots)
                    to = helper("U%d" % (s + 1), to, None, None, declare=(s % 2 == 0))
                else:
                    err += BLUNDER_M
            obs.append(Obs("dh", frm=fr, to=to, err=err))
            elems.append((s, 1))
        test = Cluster("height-differences", obs, cov=band_rows(C, band))
        bobs = []; k = 0
        for n in new:
            for f in ["A", "B"]:
                bobs.append(Obs("dh", frm=f, to=n, stdev=SIG, err=_noise(case, k, SIG * 1e-3, True))); k += 1
        if two:
            bobs.append(Obs("dh", frm="P", to="Q", stdev=SIG, err=_noise(case, k, SIG * 1e-3, True)))
        backbone = [Cluster("height-differences", bobs)]
    else:
        ents = comp.split("+")
        names = set()
        if kind == "coordinates":
            names = {e[0] for e in ents}
        else:
            for e in ents:
                names |= set(e)
        two = "Q" in names
        for n in ["A", "B"]:
            pts.append(Pt(n, XY[n][0], XY[n][1], ZZ[n], xy="fix", zs="fix"))
        new = ["P"] + (["Q"] if two else [])
        for n in new:
            pts.append(Pt(n, XY[n][0], XY[n][1], ZZ[n], xy="adj", zs="adj"))
        obs = []; s = 0
        grp = groups(kind, comp)
        for e, ent in enumerate(ents):
            if kind == "coordinates":
                target, cs = ent[0], ent[1:]
                nd = len(cs)
            else:
                frm, target = ent[0], ent[1]
                cs = "xyz"; nd = 3
            mine = [g for g, ge in grp if ge == e]
            errs = []
            for k in range(nd):
                er = _noise(case, s + k, sd[s + k] * 1e-3)
                if (s + k) in ex and mode == "blunder":
                    er += BLUNDER_M
                errs.append(er)
            if mode == "point" and any((s + k) in ex for k in range(nd)):
                # the excluded groups of this element refer to coordinates the
                # helper point does not have (no status, no value)
                xy_ex = any(len(g) == 2 and g[0] in ex for g in mine)
                z_ex = any(len(g) == 1 and g[0] in ex for g in mine)
                has_xy = "x" in cs; has_z = "z" in cs
                target = helper("U%d" % (e + 1), target,
                                None if (xy_ex or not has_xy) else "adj",
                                None if (z_ex or not has_z) else "adj")
            if kind == "coordinates":
                obs.append(Obs("coord", to=target, comps=cs, err=tuple(errs)))
            else:
                obs.append(Obs("vec", frm=frm, to=target, err=tuple(errs)))
            elems.append((s, nd))
            s += nd
        test = Cluster(kind, obs, cov=band_rows(C, band))
        # backbone of the other linear kind, with its own (fixed) banded matrix
        if kind == "coordinates":
            bobs = []; k = 0
            for n in new:
                for f in ["A", "B"]:
                    bobs.append(Obs("vec", frm=f, to=n, err=tuple(_noise(case, k + q, SIG * 1e-3, True) for q in range(3)))); k += 3
            bdim = 3 * len(bobs)
            backbone = [Cluster("vectors", bobs, cov=band_rows(dense_cov_big(bdim, 2, _other_fam(fam)), 2))]
        else:
            bobs = []; k = 0
            for n in new:
                bobs.append(Obs("coord", to=n, comps="xyz", err=tuple(_noise(case, k + q, SIG * 1e-3, True) for q in range(3)))); k += 3
            bdim = 3 * len(bobs)
            backbone = [Cluster("coordinates", bobs, cov=band_rows(dense_cov_big(bdim, 1, _other_fam(fam)), 1)),
                        Cluster("height-differences",
                                [Obs("dh", frm="A", to=n, stdev=SIG, err=_noise(case, 9 + i, SIG * 1e-3, True)) for i, n in enumerate(new)])]
    for p in extra:
        pts.append(p)
    clusters = ([test] + backbone) if case.get("order", 0) == 0 else (backbone + [test])
    net = Net(pts, clusters, **{"sigma-apr": M0})
    gnet.fill_values(net)
    _round_values(net)
    net.points = [p for p in net.points if getattr(p, "declare", True)]
    return {"net": net, "test": test, "C": C, "elems": elems, "dim": dim, "helpers": [p.id for p in extra]}


def _other_fam(fam):
    """family of the backbone matrices"""
    return 1 - fam if fam in (0, 1) else 1


def dense_cov_big(dim, band, fam):
    """backbone matrices may be larger than 6: repeat the position code modulo 6"""
    C = [[0.0] * dim for _ in range(dim)]
    for i in range(dim):
        for j in range(i, min(dim, i + band + 1)):
            C[i][j] = C[j][i] = float(gnet.fnum(fam_value(fam, i % 6, i % 6 + (j - i)), 12))
    return C


def _round_values(net):
    """values exactly as they are written to the input (10 decimals)"""
    for c in net.clusters:
        for o in c.obs:
            if isinstance(o.val, tuple):
                o.val = tuple(float(gnet.fnum(v, 10)) for v in o.val)
            else:
                o.val = float(gnet.fnum(o.val, 10))


def test_cluster(B):
    return B["test"]


# ------------------------------------------------------------------ reformulations
def active_slots(case, B):
    ex = set(case.get("excl", []))
    return [s for s in range(B["dim"]) if s not in ex]


def reform_stdev(case, B):
    """(b) diagonal cov-mat == stdev attributes (obs / height-differences, band 0)"""
    if case["band"] != 0 or case["kind"] not in ("obs", "height-differences"):
        return None
    net = B["net"].copy()
    ti = B["net"].clusters.index(B["test"])
    c = net.clusters[ti]
    for s, o in enumerate(c.obs):
        o.stdev = float(gnet.fnum(math.sqrt(B["C"][s][s]), 10))
    c.cov = None
    return net


def reform_deleted(case, B):
    """(c) excluded members deleted, cov-mat replaced by the sub-matrix"""
    kind, comp = case["kind"], case["comp"]
    excl = sorted(case.get("excl", []))
    if not excl or not deletable(kind, comp, excl):
        return None
    ex = set(excl)
    keep = active_slots(case, B)
    net = B["net"].copy()
    ti = B["net"].clusters.index(B["test"])
    c = net.clusters[ti]
    newobs = []
    for (s0, nd), o in zip(B["elems"], c.obs):
        ks = [k for k in range(nd) if (s0 + k) not in ex]
        if not ks:
            continue
        if len(ks) < nd:                 # coordinates entry that loses xy or z
            o.comps = "".join(o.comps[k] for k in ks)
            o.val = tuple(o.val[k] for k in ks)
        newobs.append(o)
    c.obs = newobs
    if not newobs:
        del net.clusters[ti]
    else:
        S = submatrix(B["C"], keep)
        c.cov = band_rows(S, bandwidth(S))
    used = set()
    for cl in net.clusters:
        for o in cl.obs:
            used.add(o.frm); used.add(o.to)
    net.points = [p for p in net.points if p.id in used or p.id not in B["helpers"]]
    return net


def reform_whitened(case, B):
    """(d) repeated observations of ONE quantity: L^-1 (l - s f) = c (l'/c - f):
    uncorrelated observations l'_i/c_i with standard deviation 1/|c_i|.
    returns (net, Linv, c) or None"""
    kind, comp = case["kind"], case["comp"]
    if not whitenable(kind, comp):
        return None
    keep = active_slots(case, B)
    if not keep:
        return None
    base = reform_deleted(case, B) if case.get("excl") else B["net"].copy()
    ti = None
    for i, cl in enumerate(base.clusters):
        if cl.cov is not None and cl.kind == kind:
            ti = i
    c = base.clusters[ti]
    S = submatrix(B["C"], keep)
    Li = lower_inverse(chol(S))
    sgn = []
    for o in c.obs:
        sgn.append(-1.0 if (kind == "height-differences" and o.frm == "P") else 1.0)
    n = len(keep)
    cc = [sum(Li[i][j] * sgn[j] for j in range(n)) for i in range(n)]
    if min(abs(x) for x in cc) < 0.02:       # 1/mm; stdev would exceed 50 mm
        return None
    lp = [sum(Li[i][j] * c.obs[j].val for j in range(n)) for i in range(n)]
    newobs = []
    for i in range(n):
        if kind == "height-differences":
            o = Obs("dh", frm="A", to="P")
        else:
            o = Obs("distance", frm="P", to="A")
        o.val = lp[i] / cc[i]
        o.stdev = 1.0 / abs(cc[i])
        newobs.append(o)
    c.obs = newobs
    c.cov = None
    return base, Li, cc


def gkf(net):
    """input text; when the network contains a <coordinates> cluster the
    coordinates of its points are declared once more AFTER the clusters: the
    <point> tags inside <coordinates> overwrite the approximate coordinates
    with the observed values, the repeated declaration restores the exact
    ones (the content model of <points-observations> is a free choice)"""
    text = gnet.to_gkf(net)
    ids = []
    for c in net.clusters:
        if c.kind == "coordinates":
            for o in c.obs:
                if o.to not in ids:
                    ids.append(o.to)
    if not ids:
        return text
    L = []
    for p in net.points:
        if p.id not in ids:
            continue
        a = ['id="%s"' % p.id]
        if p.xy is not None:
            a.append('x="%s" y="%s"' % (gnet.fnum(p.x, 10), gnet.fnum(p.y, 10)))
        if p.zs is not None:
            a.append('z="%s"' % gnet.fnum(p.z, 10))
        if len(a) > 1:
            L.append("<point %s />" % " ".join(a))
    return text.replace("</points-observations>", "\n".join(L + ["</points-observations>"]))


# ------------------------------------------------------------------ reference WLS (linear kinds)
def linear_rows(net, active_test=None, test=None):
    """rows of the linear observation equations of a network made of dh /
    coord / vec observations.  returns (unknown names, rows) with rows =
    list of (cluster index, row-in-cluster, {unknown: coeff}, const, value)
    where the model is  sum coeff*unknown + const = value + v"""
    P = {p.id: p for p in net.points}
    unk = []
    for p in net.points:
        if p.xy == "adj":
            unk += [(p.id, "x"), (p.id, "y")]
        if p.zs == "adj":
            unk.append((p.id, "z"))

    def term(pid, ch):
        """('u', key) | ('c', value) | None when the point has no such coordinate"""
        p = P.get(pid)
        if p is None:
            return None
        st = p.zs if ch == "z" else p.xy
        if st is None:
            return None
        v = {"x": p.x, "y": p.y, "z": p.z}[ch]
        return ("u", (pid, ch)) if st == "adj" else ("c", v)

    rows = []
    for ci, c in enumerate(net.clusters):
        r = 0
        for o in c.obs:
            if o.kind == "dh":
                comps = [("z", o.val)]
            elif o.kind == "vec":
                comps = list(zip("xyz", o.val))
            elif o.kind == "coord":
                comps = list(zip(o.comps, o.val))
            else:
                raise ValueError("not linear: " + o.kind)
            for ch, val in comps:
                co = {}; const = 0.0; ok = True
                ends = [(o.to, +1.0)] if o.kind == "coord" else [(o.to, +1.0), (o.frm, -1.0)]
                for pid, sg in ends:
                    t = term(pid, ch)
                    if t is None:
                        ok = False
                    elif t[0] == "u":
                        co[t[1]] = co.get(t[1], 0.0) + sg
                    else:
                        const += sg * t[1]
                rows.append((ci, r, co if ok else None, const, val))
                r += 1
    return unk, rows


def cluster_cov(c):
    n = c.dim()
    if c.cov is None:
        C = [[0.0] * n for _ in range(n)]
        for i, o in enumerate(c.obs):
            C[i][i] = o.stdev ** 2
        return C
    band, rows = c.cov
    C = [[0.0] * n for _ in range(n)]
    for i, r in enumerate(rows):
        for k, v in enumerate(r):
            C[i][i + k] = C[i + k][i] = v
    return C


def solve_spd(N, b):
    L = chol(N)
    n = len(N)
    y = [0.0] * n
    for i in range(n):
        y[i] = (b[i] - sum(L[i][k] * y[k] for k in range(i))) / L[i][i]
    x = [0.0] * n
    for i in reversed(range(n)):
        x[i] = (y[i] - sum(L[k][i] * x[k] for k in range(i + 1, n))) / L[i][i]
    return x


def reference_wls(net, tol_abs_mm=1000.0):
    """dense weighted least squares with P = (C_active)^-1 per cluster.
    A row is inactive when one of its points lacks the coordinate (no status)
    or when its absolute term at the approximate (= true) coordinates exceeds
    tol-abs -- the two documented reasons for gama to leave an observation out.
    returns dict: x {(pid,ch): adjusted}, res {(ci,row): v [m]}, pvv, dof,
    active {(ci,row)}, N (normal matrix in 1/mm2 with unknowns in mm), unk"""
    unk, rows = linear_rows(net)
    P = {p.id: p for p in net.points}
    x0 = {u: {"x": P[u[0]].x, "y": P[u[0]].y, "z": P[u[0]].z}[u[1]] for u in unk}
    act = []
    for (ci, r, co, const, val) in rows:
        if co is None:
            continue
        l0 = const + sum(cf * x0[u] for u, cf in co.items())
        if abs(l0 - val) * 1000.0 > tol_abs_mm:
            continue
        act.append((ci, r, co, const, val, l0))
    used = [u for u in unk if any(u in a[2] for a in act)]
    idx = {u: i for i, u in enumerate(used)}
    n = len(used)
    N = [[0.0] * n for _ in range(n)]
    rhs = [0.0] * n
    blocks = []
    for ci, c in enumerate(net.clusters):
        mine = [a for a in act if a[0] == ci]
        if not mine:
            continue
        Cf = cluster_cov(c)
        keep = [a[1] for a in mine]
        W = spd_inverse(submatrix(Cf, keep))          # 1/mm2
        blocks.append((ci, mine, W))
        # unknowns as corrections dx [mm]; absolute term b = (val - l0)*1000 [mm]
        m = len(mine)
        for i in range(m):
            for j in range(m):
                w = W[i][j]
                if w == 0.0:
                    continue
                bj = (mine[j][4] - mine[j][5]) * 1000.0
                for ui, ci_ in mine[i][2].items():
                    rhs[idx[ui]] += ci_ * w * bj
                    for uj, cj_ in mine[j][2].items():
                        N[idx[ui]][idx[uj]] += ci_ * w * cj_
    dx = solve_spd(N, rhs) if n else []
    x = {u: x0[u] + dx[idx[u]] / 1000.0 for u in used}
    res = {}; pvv = 0.0
    for ci, mine, W in blocks:
        v = []
        for a in mine:
            vv = sum(cf * dx[idx[u]] for u, cf in a[2].items()) - (a[4] - a[5]) * 1000.0   # mm
            v.append(vv)
            res[(ci, a[1])] = vv / 1000.0
        m = len(mine)
        pvv += sum(v[i] * W[i][j] * v[j] for i in range(m) for j in range(m))
    return {"x": x, "res": res, "pvv": pvv * M0 * M0, "dof": len(act) - n, "unk": used,
            "active": {(a[0], a[1]) for a in act}, "N": N, "nobs": len(act)}


# ------------------------------------------------------------------ malformed matrices
class MCluster(Cluster):
    """cluster whose <cov-mat dim=...> is what the test says, not what fits"""
    def dim(self):
        return getattr(self, "_dim", Cluster.dim(self))


MALFORMED = ["indefinite", "singular", "zero-variance", "negative-variance", "dim-gt-nobs", "dim-lt-nobs",
             "too-few-elements", "too-many-elements", "band-eq-dim", "band-gt-dim", "band-negative"]


def malformed_cases(kind, comp):
    """all malformed variants of the cluster (kind, comp): list of dicts
    {kind, comp, mal, band, pos}"""
    d = comp_dim(kind, comp)
    out = []
    for band in sorted({0, 1, d - 1} & set(range(d))):
        if band >= 1:
            for pos in range(d - 1):
                out.append({"mal": "indefinite", "band": band, "pos": pos})
                out.append({"mal": "singular", "band": band, "pos": pos})
        for pos in range(d):
            out.append({"mal": "zero-variance", "band": band, "pos": pos})
            out.append({"mal": "negative-variance", "band": band, "pos": pos})
        for m in ["dim-gt-nobs", "dim-lt-nobs", "too-few-elements", "too-many-elements", "band-eq-dim", "band-gt-dim", "band-negative"]:
            out.append({"mal": m, "band": band, "pos": 0})
    for o in out:
        o["kind"] = kind; o["comp"] = comp
    return out


def build_malformed(mc):
    """gkf text of a small, otherwise valid network whose cluster under test
    carries the malformed matrix"""
    case = {"kind": mc["kind"], "comp": mc["comp"], "band": mc["band"], "fam": 0, "excl": [], "order": mc.get("order", 1), "noise": 0}
    B = build(case)
    net = B["net"]
    ti = net.clusters.index(B["test"])
    c0 = B["test"]
    c = MCluster(c0.kind, c0.obs, c0.frm, c0.zero, None)
    net.clusters[ti] = c
    d = B["dim"]; band = mc["band"]; pos = mc["pos"]; m = mc["mal"]
    C = [r[:] for r in B["C"]]
    dim_attr = d; band_attr = band

    def rows_for(dim, bnd):
        """well formed rows of a dim x dim matrix with band bnd from the family"""
        return band_rows(dense_cov(dim, max(0, min(bnd, dim - 1)), 0) if dim <= 6 else dense_cov_big(dim, bnd, 0), max(0, min(bnd, dim - 1)))[1]

    if m == "indefinite":
        C[pos][pos + 1] = C[pos + 1][pos] = 1.5 * math.sqrt(C[pos][pos] * C[pos + 1][pos + 1])
        rows = band_rows(C, band)[1]
    elif m == "singular":
        C[pos][pos + 1] = C[pos + 1][pos] = 100.0
        C[pos][pos] = C[pos + 1][pos + 1] = 100.0
        for k in range(d):
            if k not in (pos, pos + 1):
                C[pos][k] = C[k][pos] = C[pos + 1][k] = C[k][pos + 1] = 0.0
        rows = band_rows(C, band)[1]
    elif m == "zero-variance":
        C[pos][pos] = 0.0
        for k in range(d):
            if k != pos:
                C[pos][k] = C[k][pos] = 0.0
        rows = band_rows(C, band)[1]
    elif m == "negative-variance":
        C[pos][pos] = -C[pos][pos]
        rows = band_rows(C, band)[1]
    elif m == "dim-gt-nobs":
        dim_attr = d + 1
        rows = rows_for(d + 1, band)
    elif m == "dim-lt-nobs":
        dim_attr = d - 1
        band_attr = min(band, max(0, d - 2))
        rows = rows_for(d - 1, band_attr) if d > 1 else []
    elif m == "too-few-elements":
        rows = band_rows(C, band)[1]
        rows[-1] = rows[-1][:-1]
    elif m == "too-many-elements":
        rows = band_rows(C, band)[1]
        rows.append([123.0])
    elif m == "band-eq-dim":
        band_attr = d
        rows = band_rows(dense_cov(d, d - 1, 0), d - 1)[1]
    elif m == "band-gt-dim":
        band_attr = d + 1
        rows = band_rows(dense_cov(d, d - 1, 0), d - 1)[1]
    elif m == "band-negative":
        band_attr = -1
        rows = band_rows(dense_cov(d, 0, 0), 0)[1]
    else:
        raise ValueError(m)
    c._dim = dim_attr
    c.cov = (band_attr, rows)
    return gnet.to_gkf(net)


# ====================================================================== shared unknowns
# Several correlated clusters (band >= 1) that refer to the SAME unknowns, in
# networks whose design matrix holds explicit zero coefficients inside the
# correlated clusters.  gama's linearisation stores a coefficient even when it
# is exactly zero:
#   distance / direction   sin(bearing) == 0 only for a bearing of exactly 0
#                          (target has the same y and a larger x); bearings of
#                          100 / 200 / 300 gon give ~1e-16 (the control class);
#   s-distance             dx/sd, dy/sd, dz/sd: exactly 0 for every aligned pair
#   z-angle                k*dz*dx, k*dz*dy: exactly 0 when dz == 0 or dx/dy == 0
# coordinates, vectors and height differences have coefficients +-1 only.
#
# A *multi case* is a dict
#   atoms  list of atom names (MULTI_ATOMS), in the order they are written
#   forms  one matrix form per atom:  F0 family 0, full band | F1 family 1,
#          band 1 | Z diagonal matrix written with band 1 (explicit zero
#          covariances) | Zf the same with the full band
#   geom   0: aligned pairs point along +x (bearing 0) | 1: x and y exchanged
#          (bearing 100 gon: distances / directions lose their exact zeros,
#          s-distances / z-angles keep them in the other column)
#   bb     'dist' | 'lin'   uncorrelated backbone that makes the network determined
#   bpos   0 backbone after the atoms | 1 before | 2 after the first atom
#   excl   None | [atom position, group, mode]   one excluded group of rows
M_XY = {"A": (0.0, 0.0), "B": (0.0, 100.0), "C": (120.0, 60.0), "D": (200.0, 0.0),
        "P": (100.0, 0.0), "Q": (60.0, 100.0)}
M_Z = {"A": 0.0, "B": 30.0, "C": 10.0, "D": 0.0, "P": 10.0, "Q": 30.0}

# (cluster kind, station, rows); rows of obs: (D direction | S distance | T s-distance | Z z-angle, target)
MULTI_ATOMS = {
    "sA": ("obs", "A", [("S", "P"), ("S", "Q")]),               # P.y only zeros
    "sB": ("obs", "B", [("S", "P"), ("S", "Q")]),               # Q.y only zeros
    "sC": ("obs", "C", [("S", "P"), ("S", "Q")]),               # no zero (control)
    "dA": ("obs", "A", [("D", "P"), ("D", "Q"), ("D", "C")]),   # P.x only (-)zeros, orientation unknown
    "mA": ("obs", "A", [("D", "P"), ("S", "P"), ("D", "Q")]),   # zeros in every column of P, no zero column
    "sP": ("obs", "P", [("S", "D"), ("S", "A")]),               # P.y: -0.0 and -1.2e-16 (200 gon)
    "dP": ("obs", "P", [("D", "D"), ("D", "Q"), ("D", "B")]),   # station unknown, one zero in P.x
    "rA": ("obs", "A", [("S", "P"), ("S", "P")]),               # repeated, P.y only zeros
    "rP": ("obs", "P", [("S", "D"), ("S", "D"), ("S", "D")]),   # repeated, P.y only -0.0
    "tA": ("obs", "A", [("T", "P"), ("T", "Q")]),               # s-distances: P.y (geom 1: P.x) only zeros
    "tB": ("obs", "B", [("T", "Q"), ("T", "P")]),               # Q.y and Q.z only zeros (dz == 0)
    "zB": ("obs", "B", [("Z", "Q"), ("Z", "P")]),               # z-angles: Q.x and Q.y only zeros (dz == 0)
    "cxy": ("coordinates", None, [("P", "xy"), ("Q", "xy")]),
    "cP": ("coordinates", None, [("P", "xyz")]),
    "cQ": ("coordinates", None, [("P", "z"), ("Q", "xyz")]),
    "h3": ("height-differences", None, [("A", "P"), ("P", "Q"), ("Q", "B")]),
    "hr": ("height-differences", None, [("A", "P"), ("P", "A")]),
    "vAP": ("vectors", None, [("A", "P"), ("P", "Q")]),
    "vBQ": ("vectors", None, [("B", "Q")]),
}
MULTI_MENU = list(MULTI_ATOMS)
# clusters in which some unknown has only exactly-zero coefficients, per geometry
MULTI_ZERO_COLUMN = {0: {"sA", "sB", "dA", "rA", "rP", "tA", "tB", "zB"}, 1: {"tA", "tB", "zB"}}
MULTI_FORMS = ["F0", "F1", "Z", "Zf"]
OBS_KIND = {"D": "direction", "S": "distance", "T": "s-distance", "Z": "z-angle"}


def multi_dim(atom):
    kind, _, rows = MULTI_ATOMS[atom]
    if kind == "coordinates":
        return sum(len(cs) for _, cs in rows)
    if kind == "vectors":
        return 3 * len(rows)
    return len(rows)


def multi_linear(atom):
    return MULTI_ATOMS[atom][0] != "obs"


def multi_whitenable(atom):
    kind, _, rows = MULTI_ATOMS[atom]
    if kind == "obs":
        return len(set(rows)) == 1 and rows[0][0] == "S"
    if kind == "height-differences":
        return len({frozenset(r) for r in rows}) == 1
    return False


def multi_groups(atom):
    """groups of rows that can be excluded AND deleted: list of (rows, element index)"""
    kind, _, rows = MULTI_ATOMS[atom]
    if kind in ("obs", "height-differences"):
        return [([s], s) for s in range(len(rows))]
    out = []; s = 0
    if kind == "coordinates":
        for e, (_, cs) in enumerate(rows):
            if "x" in cs:
                out.append(([s, s + 1], e)); s += 2
            if "z" in cs:
                out.append(([s], e)); s += 1
        return out
    return [([3 * e, 3 * e + 1, 3 * e + 2], e) for e in range(len(rows))]


def multi_excl_mode(atom, g):
    """angular observations can only be excluded through their target: the
    outlier test reads the homogenised right-hand side (DESIGN D10), a gross
    angle would take its correlated neighbours with it"""
    kind, _, rows = MULTI_ATOMS[atom]
    return "point" if (kind == "obs" and rows[g][0] in "DZ") else "blunder"


def form_cov(dim, form):
    """(dense matrix, band written to the input)"""
    if form == "F0":
        return dense_cov(dim, dim - 1, 0), dim - 1
    if form == "F1":
        return dense_cov(dim, min(1, dim - 1), 1), min(1, dim - 1)
    if form == "Z":
        return dense_cov(dim, 0, 0), min(1, dim - 1)
    if form == "Zf":
        return dense_cov(dim, 0, 0), dim - 1
    if form == "U":
        return dense_cov(dim, dim - 1, 2), dim - 1
    raise ValueError(form)


def _mnoise(atom, row, sigma_unit):
    """error of a row: depends on the atom and the row only, NOT on the place
    of the atom in the file (every order adjusts the same observations)"""
    ai = MULTI_MENU.index(atom)
    f = 0.5 + 0.1 * ((3 * row + ai) % 7)
    return SIGNS[ai % 2][(row + 5 * ai) % 12] * f * sigma_unit


def build_multi(case):
    atoms, forms = case["atoms"], case["forms"]
    geom = case.get("geom", 0)
    excl = case.get("excl")
    xy = {k: ((v[1], v[0]) if geom else v) for k, v in M_XY.items()}
    pts = []
    for n in ("A", "B", "C", "D"):
        pts.append(Pt(n, xy[n][0], xy[n][1], M_Z[n], xy="fix", zs="fix"))
    for n in ("P", "Q"):
        pts.append(Pt(n, xy[n][0], xy[n][1], M_Z[n], xy="adj", zs="adj"))
    extra = []
    tests = []; Cs = []; elems_all = []
    for ai, (atom, form) in enumerate(zip(atoms, forms)):
        kind, frm, rows = MULTI_ATOMS[atom]
        dim = multi_dim(atom)
        C, band = form_cov(dim, form)
        sd = [math.sqrt(C[i][i]) for i in range(dim)]
        ex = set()
        if excl is not None and excl[0] == ai:
            ex = set(multi_groups(atom)[excl[1]][0])
        obs = []; elems = []; s = 0
        if kind == "obs":
            for r, (ch, t) in enumerate(rows):
                knd = OBS_KIND[ch]
                unit = 1e-4 if ch in "DZ" else 1e-3
                err = _mnoise(atom, r, sd[r] * unit)
                if r in ex:
                    if excl[2] == "point":
                        like = t
                        t = "U%d" % (r + 1)
                        p = Pt(t, xy[like][0], xy[like][1], M_Z[like], xy="adj", zs=None, ax=False, az=True)
                        extra.append(p)
                    else:
                        err += BLUNDER_M
                obs.append(Obs(knd, frm=frm, to=t, err=err))
                elems.append((r, 1))
            cl = Cluster("obs", obs, frm=frm, cov=band_rows(C, band))
        elif kind == "height-differences":
            for r, (f, t) in enumerate(rows):
                err = _mnoise(atom, r, sd[r] * 1e-3)
                if r in ex:
                    err += BLUNDER_M
                obs.append(Obs("dh", frm=f, to=t, err=err))
                elems.append((r, 1))
            cl = Cluster("height-differences", obs, cov=band_rows(C, band))
        else:
            for e, ent in enumerate(rows):
                if kind == "coordinates":
                    target, cs = ent; nd = len(cs)
                else:
                    f, target = ent; cs = "xyz"; nd = 3
                errs = []
                for k in range(nd):
                    er = _mnoise(atom, s + k, sd[s + k] * 1e-3)
                    if (s + k) in ex:
                        er += BLUNDER_M
                    errs.append(er)
                if kind == "coordinates":
                    obs.append(Obs("coord", to=target, comps=cs, err=tuple(errs)))
                else:
                    obs.append(Obs("vec", frm=f, to=target, err=tuple(errs)))
                elems.append((s, nd)); s += nd
            cl = Cluster(kind, obs, cov=band_rows(C, band))
        tests.append(cl); Cs.append(C); elems_all.append(elems)
    # uncorrelated backbone: every unknown is determined whatever the atoms are
    bh = [Obs("dh", frm=f, to=t, stdev=SIG, err=_noise(case_noise0, k, SIG * 1e-3, True))
          for k, (f, t) in enumerate([("A", "P"), ("B", "Q"), ("A", "Q")])]
    if case.get("bb", "dist") == "lin":
        bv = [Obs("vec", frm=f, to=t, err=tuple(_noise(case_noise0, 3 + 3 * k + q, SIG * 1e-3, True) for q in range(3)))
              for k, (f, t) in enumerate([("A", "P"), ("B", "Q")])]
        backbone = [Cluster("vectors", bv, cov=band_rows(dense_cov(6, 0, 1), 0)), Cluster("height-differences", bh)]
    else:
        bd = [Obs("distance", frm=f, to=t, stdev=SIG, err=_noise(case_noise0, 3 + k, SIG * 1e-3, True))
              for k, (f, t) in enumerate([("C", "P"), ("C", "Q"), ("B", "P"), ("A", "Q"), ("P", "Q")])]
        backbone = [Cluster("obs", bd), Cluster("height-differences", bh)]
    bpos = case.get("bpos", 0)
    if bpos == 0:
        clusters = tests + backbone
    elif bpos == 1:
        clusters = backbone + tests
    else:
        clusters = tests[:1] + backbone + tests[1:]
    net = Net(pts + extra, clusters, **{"sigma-apr": M0})
    gnet.fill_values(net)
    _round_values(net)
    return {"net": net, "tests": tests, "Cs": Cs, "elems": elems_all, "helpers": [p.id for p in extra], "backbone": backbone}


case_noise0 = {"noise": 0}


def multi_excluded_rows(case, ai):
    excl = case.get("excl")
    if excl is None or excl[0] != ai:
        return set()
    return set(multi_groups(case["atoms"][ai])[excl[1]][0])


def multi_expected_obs(case, B):
    """number of observations gama must keep"""
    n = sum(c.dim() for c in B["backbone"])
    for ai, atom in enumerate(case["atoms"]):
        kind, _, rows = MULTI_ATOMS[atom]
        ex = multi_excluded_rows(case, ai)
        act = [s for s in range(multi_dim(atom)) if s not in ex]
        if kind == "obs":
            if sum(1 for s in act if rows[s][0] == "D") < 2:
                act = [s for s in act if rows[s][0] != "D"]
        n += len(act)
    return n


def _multi_index(B, net, ai):
    """index in net.clusters of the cluster of atom ai (net = copy of B['net'])"""
    return B["net"].clusters.index(B["tests"][ai])


def multi_reform_diag(case, B):
    """(b) every diagonal matrix written with band >= 1 (forms Z, Zf) replaced
    by stdev attributes (obs, height-differences) or by the band 0 matrix"""
    if not any(f in ("Z", "Zf") for f in case["forms"]):
        return None
    net = B["net"].copy()
    for ai, f in enumerate(case["forms"]):
        if f not in ("Z", "Zf"):
            continue
        c = net.clusters[_multi_index(B, net, ai)]
        C = B["Cs"][ai]
        if c.kind in ("obs", "height-differences"):
            for s, o in enumerate(c.obs):
                o.stdev = float(gnet.fnum(math.sqrt(C[s][s]), 10))
            c.cov = None
        else:
            c.cov = band_rows(C, 0)
    return net


def multi_reform_deleted(case, B):
    """(c) the excluded group deleted, the matrix replaced by the sub-matrix"""
    excl = case.get("excl")
    if excl is None:
        return None
    ai = excl[0]
    ex = multi_excluded_rows(case, ai)
    net = B["net"].copy()
    ti = _multi_index(B, net, ai)
    c = net.clusters[ti]
    dim = multi_dim(case["atoms"][ai])
    keep = [s for s in range(dim) if s not in ex]
    newobs = []
    for (s0, nd), o in zip(B["elems"][ai], c.obs):
        ks = [k for k in range(nd) if (s0 + k) not in ex]
        if not ks:
            continue
        if len(ks) < nd:
            o.comps = "".join(o.comps[k] for k in ks)
            o.val = tuple(o.val[k] for k in ks)
        newobs.append(o)
    c.obs = newobs
    if not newobs:
        del net.clusters[ti]
    else:
        S = submatrix(B["Cs"][ai], keep)
        # the band that is written stays the band of the primary input when the
        # sub-matrix still has that many rows (explicit zeros stay explicit)
        _, b0 = form_cov(dim, case["forms"][ai])
        c.cov = band_rows(S, max(bandwidth(S), min(b0, len(keep) - 1)))
    net.points = [p for p in net.points if p.id not in B["helpers"]]
    return net


def multi_reform_whitened(case, B):
    """(d) every cluster that repeats ONE quantity replaced by uncorrelated
    observations l'_i / c_i with standard deviation 1/|c_i| (L^-1 applied to
    the cluster).  returns (net, [(atom position, Linv, c)]) or None"""
    if case.get("excl") is not None:
        return None
    net = B["net"].copy()
    done = []
    for ai, atom in enumerate(case["atoms"]):
        if not multi_whitenable(atom) or case["forms"][ai] in ("Z", "Zf"):
            continue                         # a diagonal matrix: that is relation (b)
        c = net.clusters[_multi_index(B, net, ai)]
        Li = lower_inverse(chol(B["Cs"][ai]))
        n = len(c.obs)
        o0 = c.obs[0]
        sgn = [1.0 if (o.frm, o.to) == (o0.frm, o0.to) else -1.0 for o in c.obs]
        cc = [sum(Li[i][j] * sgn[j] for j in range(n)) for i in range(n)]
        if min(abs(x) for x in cc) < 0.02:
            continue
        lp = [sum(Li[i][j] * c.obs[j].val for j in range(n)) for i in range(n)]
        newobs = []
        for i in range(n):
            o = Obs(o0.kind, frm=o0.frm, to=o0.to)
            o.val = lp[i] / cc[i]
            o.stdev = 1.0 / abs(cc[i])
            newobs.append(o)
        c.obs = newobs
        c.cov = None
        done.append((ai, Li, cc, sgn))
    if not done:
        return None
    return net, done


def multi_obs_offset(B, net, ai):
    """index of the first observation of atom ai in the list of adjusted
    observations (no exclusions)"""
    ti = _multi_index(B, net, ai)
    return sum(c.dim() for c in B["net"].clusters[:ti])
