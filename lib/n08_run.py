"""n08_run: run the real gama-local on one generated input with all four
algorithms and reduce text + XML output to a plain dict (pool worker).

Used by checks/c08.py and checks/c20.py.
"""
import os, re, sys
sys.path.insert(0, os.path.dirname(os.path.abspath(__file__)))
import gnet

ALGS = gnet.ALGS

NONFINITE = re.compile(r"(?<![A-Za-z0-9_])[-+]?(?:nan|inf|infinity)(?![A-Za-z0-9_])", re.I)

RM_REASONS = {
    "indeterminable coordinates xy": ("xy", "huge"), "indeterminable coordinates xyz": ("xyz", "huge"),
    "indeterminable coordinate z": ("z", "huge"),
    "missing coordiantes xy": ("xy", "missing"), "missing coordiantes xyz": ("xyz", "missing"),
    "missing coordiantes z": ("z", "missing"),
    "singular coordiantes xy": ("xy", "singular"), "singular coordiante z": ("z", "singular"),
}


def parse_text(t):
    """-> dict(removed=[(id, coords, why)], diag=None|dict(d, notenough, singular=[(i,type,id)]),
    notconnected=bool, has_adjustment=bool)"""
    out = {"removed": [], "diag": None, "notconnected": False, "has_adjustment": False}
    if not t:
        return out
    out["notconnected"] = "network is not connected" in t
    out["has_adjustment"] = "Adjusted coordinates" in t or "Adjusted observations" in t or "Adjusted heights" in t
    m = re.search(r"Removed points and coordinates\n\*+\n\n(.*?)\n\n", t, re.S)
    if m:
        for line in m.group(1).splitlines():
            line = line.rstrip()
            if not line.strip():
                continue
            hit = None
            for txt, (co, why) in RM_REASONS.items():
                if line.endswith(txt):
                    hit = (line[: -len(txt)].strip(), co, why)
                    break
            out["removed"].append(hit if hit else (line.strip(), "?", "?"))
    m = re.search(r"Free network\n\*+\n\nFree network defect is (\d+)\. (.*?)\n\n(.*)", t, re.S)
    if m:
        d = {"d": int(m.group(1)), "cannot": "can not be adjusted" in m.group(2),
             "notenough": "Not enough constrained points" in m.group(2), "singular": []}
        tail = m.group(3)
        mm = re.search(r"-{10,}\n\n(.*?)\n\n", tail + "\n\n", re.S)
        if mm:
            for line in mm.group(1).splitlines():
                f = line.split()
                if len(f) >= 3 and f[0].isdigit():
                    d["singular"].append((int(f[0]), f[1], f[2]))
        out["diag"] = d
    return out


def digest(r):
    """gnet.Run -> plain dict"""
    D = {"rc": r.rc, "timeout": r.timeout, "stderr": (r.stderr or "")[:300], "stdout": (r.stdout or "")[:300]}
    nf = []
    for nm, s in (("xml", r.xml), ("text", r.text), ("stdout", r.stdout), ("stderr", r.stderr)):
        if s:
            m = NONFINITE.search(s)
            if m:
                nf.append("%s:%s" % (nm, s[max(0, m.start() - 60): m.end() + 20].replace("\n", " ")))
    D["nonfinite"] = nf
    T = parse_text(r.text)
    D.update(T)
    D["cls"] = "none"
    D["err"] = None
    if r.xml is not None:
        R = gnet.parse_result(r.xml)
        if R.error is not None:
            D["cls"] = "err" if R.error.startswith("error-document") else "badxml"
            D["err"] = R.error
            D["errcat"] = getattr(R, "error_category", None)
        else:
            D["cls"] = "adj"
            D["defect"] = R.defect; D["dof"] = R.dof; D["pvv"] = R.pvv
            D["n"] = R.unknowns; D["m"] = R.equations; D["connected"] = R.connected
            D["counts"] = R.counts
            D["sd"] = {k: v for k, v in R.sd.items() if isinstance(v, float)}
            adj = {}
            for pid, d in R.adjusted.items():
                e = {}
                for k, v in d.items():
                    if k == "id": continue
                    e[k.lower()] = v
                    if k.isupper(): e["con_" + k.lower()] = True
                adj[pid] = e
            D["adjusted"] = adj
            D["fixed"] = {pid: {k.lower(): v for k, v in d.items() if k != "id"} for pid, d in R.fixed.items()}
            D["orient"] = R.orientations
            D["cov_dim"] = R.cov_dim
            D["cov_diag"] = None
            try:
                C = gnet.cov_full(R)
                D["cov_diag"] = [C[i][i] for i in range(R.cov_dim)]
            except Exception:
                pass
            obs = []
            for o in R.obs:
                obs.append((o["tag"], o.get("from") or o.get("id"), o.get("to"), o.get("left"), o.get("right"),
                            o.get("obs"), o.get("adj"), o.get("stdev"), o.get("qrr"), o.get("f"), o.get("std-residual")))
            D["obs"] = obs
    elif T["diag"] is not None:
        D["cls"] = "diag"
    elif r.text is not None and T["has_adjustment"]:
        D["cls"] = "text-only-adj"
    return D


def private_exe(src, tmpdir):
    """copy the freshly built executable into the check's scratch directory
    (under the build lock) and return the copy: another check that rebuilds
    the shared build tree while this one is running can neither swap the
    binary under our feet nor make an exec fail while the linker writes it."""
    import fcntl, shutil, stat
    bdir = os.path.dirname(os.path.abspath(src))
    lockf = os.path.join(os.path.dirname(bdir), ".lock-" + os.path.basename(bdir))
    dst = os.path.join(tmpdir, os.path.basename(src))
    try:
        with open(lockf, "a") as lk:
            fcntl.flock(lk, fcntl.LOCK_EX)
            shutil.copy2(src, dst)
            fcntl.flock(lk, fcntl.LOCK_UN)
        os.chmod(dst, os.stat(dst).st_mode | stat.S_IXUSR)
        return dst
    except OSError:
        return src


def run_case(item):
    """item = (key, gkf_text, workdir, exe, extra_args[, algs]) -> (key, {alg: digest})"""
    key, gkf, wd, exe, extra = item[:5]
    algs = item[5] if len(item) > 5 else ALGS
    out = {}
    name = "c%d_%s" % (os.getpid(), re.sub(r"\W", "_", str(key))[:60])
    for alg in algs:
        r = gnet.run_gama(exe, gkf, wd, name, ["--algorithm", alg] + list(extra), want=("xml", "text"))
        out[alg] = digest(r)
    return key, out
