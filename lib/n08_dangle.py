"""n08_dangle: the "dangling point" dimension of C08.

Every family network of n08_gen gets variants with ONE extra point P that the
adjustment has to remove, because its observations cannot determine it:

  attach   P carries   what gama-local does (measured on the unchanged tree)
  none     like the    no observation at all: never numbered, removed as
           family      "singular coordinates" (xy and/or z)
  dist     xy          one horizontal distance: the x and y columns of P are
                       collinear -> "singular coordinates xy" AFTER P was
                       numbered in the first pass of project_equations()
  dir      xy          P is one more target in an existing direction set
                       (collinear columns, as above)
  ang      xy          P is the right-hand target of one angle (as above)
  sdist    xyz         one slope distance: xy removed in the first pass, the
                       slope distance thereby becomes passive and z is removed
                       in the second pass (two-step removal)

NOT dangling (checked with plain gama-local runs, therefore not generated): a
single height difference / a single vector / a single zenith angle determine
the height (a zenith angle to an xyz point removes only xy and keeps z as a
determined unknown); a station with directions to two targets is regular for
singular_coords() and is removed -- if at all -- by the solver dependent
null_space() path (finding C20 algorithms-disagree).  Every removal generated
here is decided by LocalNetwork::singular_coords() on the design matrix alone,
before any solver is called: it is the same for the four algorithms, and the
remaining network is exactly the family network.

A variant is the tuple (attach, status_xy, status_z, idpos, obspos):
  status   'adj' (free: xy / z) or 'con' (constrained: XY / Z), None = P has
           no such coordinates
  idpos    'before' / 'between' / 'after': the id of P sorts before all,
           between the second and the third, after all points of the family
           (PointID order = order of the point map = order of min_x list)
  obspos   where the observation of P stands: 'first' (first observation of
           the input, P is its FROM point and gets the unknowns 1,2 in the
           first pass), 'second' (P is numbered after two family points),
           'last' (P is numbered after everything; its first-pass indexes
           exceed the final number of unknowns)

NOTE on the position of P (300,150): singular_coords() computes
1 - |ab|/sqrt(aa*bb) from the x and y columns of a point; no sight of the
attachments dist / dir / ang / sdist is parallel to a coordinate axis (both
columns non-zero; selfcheck() proves it exactly for every generated variant).
The attachment 'distx' is the other case: ONE horizontal distance exactly
along the x axis (P = anchor + (100, 0), bearing exactly 0): the y column of P
is exactly zero, the quotient 0/0.  Before the repair 796e8cc (section 4.1)
such a point was not removed; since then it must be removed like every other
single-sight point, whatever its status (free or constrained) - expected
listing and remaining network are those of 'dist'.
"""
import os, sys
sys.path.insert(0, os.path.dirname(os.path.abspath(__file__)))
import gnet, n08_ref
from gnet import Pt, Obs, Cluster

PID = {"before": "1", "between": "Bm", "after": "Zz"}      # numeric ids sort before all strings
PX, PY, PZ = 300, 150, 20                                   # outside the lattice {0..200}^2; no sight family point -> P is parallel to a coordinate axis (see NOTE below)
IDPOS = ("before", "between", "after")
OBSPOS = ("first", "second", "last")

ATTACH = {                        # family kind -> attachments
    "lev": ("none",),
    "dist": ("none", "dist", "distx"),
    "dirdist": ("none", "dist", "distx", "dir"),
    "ang": ("none", "dist", "distx", "ang"),
    "sz": ("none", "dist", "distx", "sdist"),
    "sd": ("none", "dist", "distx", "sdist"),
    "vec": ("none", "dist", "distx"),
}


def base_kind(name):
    import re
    return re.match(r"[a-z]+", name).group(0)


def dims_of(kind, attach):
    """which coordinates P carries"""
    if attach == "none":
        return "z" if kind == "lev" else ("xy" if kind in ("dist", "dirdist", "ang") else "xyz")
    if attach == "sdist":
        return "xyz"
    return "xy"


def variants(fname, tier):
    """all variants of one family, deterministic order"""
    kind = base_kind(fname)
    out = []
    for attach in ATTACH[kind]:
        dims = dims_of(kind, attach)
        sxy = ("adj", "con") if "xy" in dims else (None,)
        sz = ("adj", "con") if "z" in dims else (None,)
        for a in sxy:
            for b in sz:
                for idpos in IDPOS:
                    for obspos in (OBSPOS if attach != "none" else ("first",)):
                        out.append((attach, a, b, idpos, obspos))
    return out


def label(var):
    attach, a, b, idpos, obspos = var
    st = ("XY" if a == "con" else "xy" if a else "") + ("Z" if b == "con" else "z" if b else "")
    return "P[%s %s id-%s%s]" % (attach, st, idpos, "" if attach == "none" else " obs-" + obspos)


def is_constrained(var):
    return var[1] == "con" or var[2] == "con"


def free_twin(var):
    """the same variant with P declared free"""
    attach, a, b, idpos, obspos = var
    return (attach, "adj" if a else None, "adj" if b else None, idpos, obspos)


def _insert(lst, item, obspos):
    if obspos == "first": lst.insert(0, item)
    elif obspos == "second": lst.insert(min(1, len(lst)), item)
    else: lst.append(item)


def apply(net, var):
    """net (statuses already set) + dangling point -> new Net, id of P"""
    attach, a, b, idpos, obspos = var
    n = net.copy()
    pid = PID[idpos]
    ids = [p.id for p in n.points]
    P = Pt(pid, PX if a else None, PY if a else None, PZ if b else None, xy=a, zs=b)
    n.points.insert({"before": 0, "between": 2, "after": len(ids)}[idpos], P)
    first, second, last = ids[0], ids[1], ids[-1]
    anchor = last if obspos == "last" else first
    if attach == "none":
        return n, pid
    if attach == "distx":                          # exactly along the x axis of the anchor: the y column of P is exactly zero
        A = [p for p in n.points if p.id == anchor][0]
        P.x = A.x + 100; P.y = A.y
    if attach in ("dist", "distx", "sdist"):
        knd = "s-distance" if attach == "sdist" else "distance"
        o = Obs(knd, pid, anchor, stdev=5.0) if obspos == "first" else Obs(knd, anchor, pid, stdev=5.0)
        # the cluster that already holds distances (no station of its own), else a new one
        tgt = None
        for c in n.clusters:
            if c.kind == "obs" and c.frm is None:
                tgt = c
        if tgt is not None and (obspos != "first" or tgt is n.clusters[0]):
            _insert(tgt.obs, o, obspos)
        else:
            c = Cluster("obs", [o])
            if obspos == "last": n.clusters.append(c)
            else: n.clusters.insert(0, c)           # 'first' and 'second': before every family observation
    elif attach == "dir":
        sets = [c for c in n.clusters if c.kind == "obs" and c.frm is not None]
        c = sets[-1] if obspos == "last" else sets[0]
        _insert(c.obs, Obs("direction", c.frm, pid, stdev=10.0), obspos)
    elif attach == "ang":
        tgt = [c for c in n.clusters if c.kind == "obs" and c.frm is None][0]
        other = first if obspos == "last" else second
        _insert(tgt.obs, Obs("angle", anchor, None, bs=other, fs=pid, stdev=10.0), obspos)
    else:
        raise ValueError(attach)
    return n, pid


def expected_removed(var):
    """what the text output must list for P: [(id, coordinates, reason)]"""
    attach, a, b, idpos, obspos = var
    pid = PID[idpos]
    out = []
    if attach == "none":
        # one pass of singular_coords(): z first, then xy (both never numbered)
        if b: out.append((pid, "z", "singular"))
        if a: out.append((pid, "xy", "singular"))
    else:
        out.append((pid, "xy", "singular"))
        if b: out.append((pid, "z", "singular"))
    return out


def selfcheck(net, var):
    """exact proof that the variant is a dangling point of the kind described
    above: P occurs in at most one observation, and in that one with non-zero
    coefficients of both x and y (-> collinear, non-zero columns).  Raises
    AssertionError (harness mistake), never a violation."""
    attach = var[0]
    n, pid = apply(net, var)
    hits = []
    for ci, c in enumerate(n.clusters):
        for o in c.obs:
            if pid in (o.frm, o.to, o.bs, o.fs):
                hits.append((ci, o))
    if attach == "none":
        assert not hits, "dangling point without observation has one"
        return
    assert len(hits) == 1, "dangling point occurs in %d observations" % len(hits)
    ci, o = hits[0]
    m = n.copy()
    for p in m.points:                  # every coordinate free: the full gradient
        if p.xy: p.xy = "adj"
        if p.zs: p.zs = "adj"
    row = n08_ref.exact_row(m, ci, o, None)
    if attach == "distx":
        assert row.get(("x", pid), 0) != 0 and row.get(("y", pid), 0) == 0, "distx: the y column of the dangling point is not exactly zero"
    else:
        assert row.get(("x", pid), 0) != 0 and row.get(("y", pid), 0) != 0, "sight to the dangling point is parallel to an axis"
    assert o.kind == {"dist": "distance", "distx": "distance", "sdist": "s-distance", "dir": "direction", "ang": "angle"}[attach]
