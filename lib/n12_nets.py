"""n12_nets: the network family, identifier menu and id positions of check C12.

Everything here is deterministic data: `family()` returns the list of named
networks (gnet.Net objects with noisy, filled observation values), `MENU` the
identifier / description strings, `positions(net)` the places an identifier
string can be put into one at a time, `apply(net, pos, item)` the network with
that one string replaced, `gkf(net)` the input XML text.
"""
import copy, re
import gnet
from gnet import Pt, Obs, Cluster, Net

# ---------------------------------------------------------------- geometry
XY = {"A": (0.0, 0.0), "B": (200.0, 30.0), "C": (110.0, 160.0), "D": (-40.0, 120.0), "E": (220.0, 150.0)}
ZZ = {"A": 10.0, "B": 12.5, "C": 15.2, "D": 11.1, "E": 13.7}
# plain identifiers written to the file (numeric and alphanumeric, so that the
# numeric-first ordering of PointID is exercised)
PLAIN = {"A": "A", "B": "B2", "C": "30", "D": "4", "E": "E"}

# deterministic noise pattern in units of the standard deviation
PAT = [[0.8, -0.6, 0.3, -1.1, 0.9, -0.2, 0.5, -0.7, 1.2, -0.4, 0.1, -0.9, 0.6],
       [-0.5, 0.9, -1.0, 0.4, 0.2, 0.7, -0.8, 1.1, -0.3, 0.6, -1.2, 0.3, -0.1]]


def P(name, dim, st, ax=True, az=True):
    """dim: '2' xy only, '1' z only, '3' xyz.  st: status string like 'fix',
    'adj', 'con' or 'fix/adj' (xy/z)."""
    sxy, sz = (st.split("/") + [st])[:2] if "/" in st else (st, st)
    x, y = XY[name]; z = ZZ[name]
    if dim == "2": return Pt(name, x, y, None, xy=sxy, zs=None, ax=ax)
    if dim == "1": return Pt(name, None, None, z, xy=None, zs=sz, az=az)
    return Pt(name, x, y, z, xy=sxy, zs=sz, ax=ax, az=az)


def station(frm, *obs):
    for o in obs: o.frm = frm
    return Cluster("obs", list(obs), frm=frm)

def di(to, sd=10.0): return Obs("direction", to=to, stdev=sd)
def ds(to, sd=5.0): return Obs("distance", to=to, stdev=sd)
def sdist(to, sd=5.0): return Obs("s-distance", to=to, stdev=sd)
def za(to, sd=10.0): return Obs("z-angle", to=to, stdev=sd)
def an(bs, fs, sd=10.0): return Obs("angle", bs=bs, fs=fs, stdev=sd)
def az(to, sd=10.0): return Obs("azimuth", to=to, stdev=sd)
def dh(frm, to, sd=3.0, dist=None): return Obs("dh", frm, to, stdev=sd, dist=dist)
def vec(frm, to): return Obs("vec", frm, to)
def co(to, comps): return Obs("coord", to=to, comps=comps)

def free(*obs):
    """<obs> cluster without a from attribute (each observation names its station)"""
    return Cluster("obs", list(obs))


def cov(cl, band, var, rho=0.3):
    n = cl.dim()
    cl.cov = gnet.band_cov(n, min(band, n - 1), lambda i, j: var if i == j else var * rho / (j - i))
    return cl


FRAMES = {"ne-l": ("ne", "left-handed", False), "en-r": ("en", "right-handed", False),
          "ne-r": ("ne", "right-handed", True), "en-l": ("en", "left-handed", True),
          "sw-l": ("sw", "left-handed", False), "nw-l": ("nw", "left-handed", True)}


def _noise(net, epoch):
    k = 0
    for c in net.clusters:
        var = None
        if c.cov is not None:
            var = [r[0] for r in c.cov[1]]           # diagonal (variances, mm^2)
        row = 0
        for o in c.obs:
            d = o.dim()
            if var is not None:
                sds = [var[row + t] ** 0.5 for t in range(d)]
            else:
                sds = [o.stdev] * d
            row += d
            es = []
            for t in range(d):
                f = PAT[epoch][k % 13]; k += 1
                es.append(f * sds[t] * (1e-4 if o.kind in ("direction", "angle", "azimuth", "z-angle") else 1e-3))
            o.err = tuple(es) if d > 1 or o.kind in ("vec", "coord") else es[0]


def finish(net, frame="ne-l", epoch=0, noise=True):
    """fill observation values (consistent in gama's internal frame) + noise"""
    axes, angles, incons = FRAMES[frame]
    net.attrs["axes-xy"] = axes; net.attrs["angles"] = angles
    net.inconsistent = incons
    if noise: _noise(net, epoch)
    gnet.fill_values(net)
    if incons:
        m = net.copy()
        for p in m.points:
            if p.y is not None: p.y = -p.y
        gnet.fill_values(m)
        for c, cm in zip(net.clusters, m.clusters):
            for o, om in zip(c.obs, cm.obs):
                if o.kind in ("direction", "angle", "azimuth"): o.val = om.val
    return net


# ---------------------------------------------------------------- the family
def _templates():
    T = []
    def add(name, dim, pts, cls, frame="ne-l", **par):
        params = {"sigma-apr": 10, "conf-pr": 0.95, "tol-abs": 1000, "sigma-act": "aposteriori"}
        extra = {}
        for k in list(par):
            if k in ("epoch_attr", "bad_approx", "offset", "outlier"): extra[k] = par.pop(k)
        params.update({k.replace("_", "-"): v for k, v in par.items()})
        T.append((name, dim, pts, cls, frame, params, extra))

    # ---- 2-D
    full2 = lambda: [station("A", di("B"), di("C"), di("D"), ds("C"), ds("D")),
                     station("B", di("A"), di("C"), di("D"), ds("C"), ds("D")),
                     station("C", di("A"), di("B"), di("D"), ds("D"))]
    for fr in ("ne-l", "ne-r", "en-l", "en-r"):
        add("dirdist2-" + fr, "2", [("A", "fix"), ("B", "fix"), ("C", "adj"), ("D", "adj")], full2(), frame=fr)
    add("dist2", "2", [("A", "fix"), ("B", "fix"), ("C", "adj"), ("D", "adj")],
        [free(Obs("distance", "A", "C", stdev=5), Obs("distance", "A", "D", stdev=5), Obs("distance", "B", "C", stdev=5),
              Obs("distance", "B", "D", stdev=5), Obs("distance", "C", "D", stdev=5), Obs("distance", "D", "C", stdev=4))])
    angs = lambda: [station("A", an("B", "C"), an("B", "D"), ds("C")), station("B", an("A", "C"), an("A", "D"), ds("D")),
                    station("C", an("A", "B"), an("A", "D"), an("D", "B"))]
    add("angle2", "2", [("A", "fix"), ("B", "fix"), ("C", "adj"), ("D", "adj")], angs())
    add("angle2-ne-r", "2", [("A", "fix"), ("B", "fix"), ("C", "adj"), ("D", "adj")], angs(), frame="ne-r")
    azs = lambda: [station("A", az("C"), az("D"), ds("C"), ds("D")), station("C", az("D"), ds("D"), az("A")), station("D", az("A"), az("C"))]
    add("azimuth2", "2", [("A", "fix"), ("C", "adj"), ("D", "adj")], azs())
    add("azimuth2-ne-r", "2", [("A", "fix"), ("C", "adj"), ("D", "adj")], azs(), frame="ne-r")
    add("free2", "2", [("A", "con"), ("B", "con"), ("C", "adj"), ("D", "adj")], full2())
    add("free2-allcon-nw", "2", [("A", "con"), ("B", "con"), ("C", "con"), ("D", "con")], full2(), frame="nw-l")
    add("mixed2", "2", [("A", "fix"), ("B", "con"), ("C", "adj"), ("D", "con")], full2(), sigma_act="apriori")
    add("coords2", "2", [("A", "fix"), ("B", "fix"), ("C", "adj"), ("D", "adj")],
        [cov(Cluster("coordinates", [co("C", "xy"), co("D", "xy")]), 1, 25.0),
         station("C", di("A"), di("B"), di("D"), ds("A"), ds("D")), station("D", ds("A"), ds("B"))])
    add("coords2-ne-r", "2", [("A", "fix"), ("B", "fix"), ("C", "adj"), ("D", "adj")],
        [cov(Cluster("coordinates", [co("C", "xy"), co("D", "xy")]), 0, 16.0),
         station("C", di("A"), di("B"), di("D"), ds("A"), ds("D")), station("D", ds("A"), ds("B"))], frame="ne-r")
    add("dof0-2", "2", [("A", "fix"), ("B", "fix"), ("C", "adj")], [station("A", ds("C")), station("B", ds("C"))])
    add("dof1-2", "2", [("A", "fix"), ("B", "fix"), ("C", "adj")], [station("A", ds("C"), di("B"), di("C")), station("B", ds("C"))])
    add("dangling2", "2", [("A", "fix"), ("B", "fix"), ("C", "adj"), ("D", "adj"), ("E", "adj")],
        full2() + [station("B", di("A"), di("E"), ds("E"))])
    add("badapprox2", "2", [("A", "fix"), ("B", "fix"), ("C", "adj"), ("D", "adj")], full2(), bad_approx=True)
    add("epoch2-sw", "2", [("A", "fix"), ("B", "fix"), ("C", "adj"), ("D", "adj")], full2(), frame="sw-l",
        epoch_attr="2024.5", conf_pr=0.99)
    add("outlier2", "2", [("A", "fix"), ("B", "fix"), ("C", "adj"), ("D", "adj")], full2(), outlier=(1, 3, 0.04))
    add("big2", "2", [("A", "fix"), ("B", "fix"), ("C", "adj"), ("D", "con")], full2(), offset=(5100000.0, 1200000.0))
    # ---- 1-D
    add("lev1-dof0", "1", [("A", "fix"), ("C", "adj"), ("D", "adj")], [Cluster("height-differences", [dh("A", "C"), dh("C", "D")])])
    lev = lambda: [Cluster("height-differences", [dh("A", "C"), dh("C", "D"), dh("D", "E"), dh("E", "A"), dh("A", "D", dist=0.4), dh("C", "E", sd=None, dist=0.25)])]
    def levfix():
        c = lev()
        c[0].obs[5].stdev = 2.0
        return c
    add("lev1", "1", [("A", "fix"), ("C", "adj"), ("D", "adj"), ("E", "adj")], levfix())
    add("lev1-free", "1", [("A", "con"), ("C", "con"), ("D", "adj"), ("E", "adj")], levfix())
    def levcov():
        c = levfix(); cov(c[0], 1, 9.0); return c
    add("lev1-cov", "1", [("A", "fix"), ("C", "adj"), ("D", "adj"), ("E", "adj")], levcov(), sigma_act="apriori")
    add("lev1-zcoord", "1", [("A", "fix"), ("C", "adj"), ("D", "adj")],
        [Cluster("height-differences", [dh("A", "C"), dh("C", "D"), dh("D", "A")]),
         cov(Cluster("coordinates", [co("C", "z"), co("D", "z")]), 1, 16.0)])
    add("lev1-two-groups", "1", [("A", "fix"), ("C", "adj"), ("B", "fix"), ("E", "adj"), ("D", "adj")],
        [Cluster("height-differences", [dh("A", "C"), dh("C", "A", sd=2.0), dh("A", "C", sd=4.0)]),
         Cluster("height-differences", [dh("B", "E"), dh("E", "D"), dh("D", "B"), dh("B", "D", sd=2.0)])])
    # ---- 3-D
    tps = lambda: [station("A", di("B"), di("C"), di("D"), sdist("C"), sdist("D"), za("C"), za("D")),
                   station("B", di("A"), di("C"), di("D"), sdist("C"), sdist("D"), za("C"), za("D")),
                   station("C", di("A"), di("B"), di("D"), sdist("D"), za("D"))]
    add("tps3", "3", [("A", "fix"), ("B", "fix"), ("C", "adj"), ("D", "adj")], tps())
    add("tps3-ne-r", "3", [("A", "fix"), ("B", "fix"), ("C", "adj"), ("D", "adj")], tps(), frame="ne-r")
    add("tps3-free", "3", [("A", "con"), ("B", "con"), ("C", "adj"), ("D", "con")], tps())
    vcs = lambda band: [cov(Cluster("vectors", [vec("A", "C"), vec("A", "D"), vec("C", "D"), vec("D", "E"), vec("A", "E"), vec("C", "E")]), band, 4.0)]
    add("vec3", "3", [("A", "fix"), ("C", "adj"), ("D", "adj"), ("E", "adj")], vcs(2))
    add("vec3-en-l", "3", [("A", "fix"), ("C", "adj"), ("D", "adj"), ("E", "adj")], vcs(0), frame="en-l")
    add("vec3-free", "3", [("A", "con"), ("C", "con"), ("D", "con"), ("E", "adj")], vcs(1))
    add("coords3", "3", [("A", "fix"), ("C", "adj"), ("D", "adj")],
        [cov(Cluster("coordinates", [co("C", "xyz"), co("D", "xyz")]), 2, 25.0),
         cov(Cluster("vectors", [vec("A", "C"), vec("C", "D"), vec("D", "A")]), 0, 4.0)])
    add("coords3-en-l", "3", [("A", "fix"), ("C", "adj"), ("D", "adj")],
        [cov(Cluster("coordinates", [co("C", "xyz"), co("D", "xy")]), 0, 25.0),
         cov(Cluster("vectors", [vec("A", "C"), vec("C", "D"), vec("D", "A")]), 0, 4.0)], frame="en-l")
    alltypes = lambda: [
        station("A", di("B"), di("C"), di("D"), ds("C"), sdist("D"), za("D")),
        station("B", di("A"), di("C"), di("D"), ds("D"), an("C", "D"), az("C")),
        Cluster("height-differences", [dh("A", "C", dist=0.2), dh("C", "D"), dh("D", "B")]),
        cov(Cluster("vectors", [vec("A", "C"), vec("C", "D")]), 1, 4.0),
        cov(Cluster("coordinates", [co("D", "xyz")]), 0, 25.0)]
    add("all3", "3", [("A", "fix"), ("B", "fix"), ("C", "adj"), ("D", "adj")], alltypes())
    add("all3-ne-r", "3", [("A", "fix"), ("B", "fix"), ("C", "adj"), ("D", "adj")], alltypes(), frame="ne-r")
    add("all3-apriori", "3", [("A", "fix"), ("B", "fix"), ("C", "adj"), ("D", "con")], alltypes(), sigma_act="apriori", conf_pr=0.9)
    add("status3", "3", [("A", "fix"), ("B", "fix/adj"), ("C", "adj/fix"), ("D", "adj"), ("E", "con/adj")],
        [station("A", di("B"), di("C"), di("D"), di("E"), ds("C"), ds("D"), ds("E"), za("B"), za("D"), za("E")),
         station("B", di("A"), di("C"), di("D"), di("E"), ds("C"), ds("D"), ds("E"), za("D")),
         station("C", di("A"), di("D"), di("E"), za("D"), za("E"), za("B")),
         Cluster("height-differences", [dh("A", "B"), dh("B", "D"), dh("D", "E"), dh("E", "A")])])
    add("levxy3", "3", [("A", "fix"), ("B", "fix/adj"), ("C", "fix/adj"), ("D", "fix/adj")],
        [Cluster("height-differences", [dh("A", "B"), dh("B", "C"), dh("C", "D"), dh("D", "A"), dh("A", "C")]),
         station("A", za("C"), za("D"))])
    return T


def family():
    """list of (name, net_epoch0, net_epoch1)"""
    out = []
    for (name, dim, pts, cls, frame, params, extra) in _templates():
        nets = []
        for epoch in (0, 1):
            points = []
            for (pn, st) in pts:
                p = P(pn, dim, st)
                if extra.get("bad_approx") and p.xy == "adj":
                    p.ax = (0.35, -0.25)
                if extra.get("offset") and p.x is not None:
                    p.x += extra["offset"][0]; p.y += extra["offset"][1]
                points.append(p)
            net = Net(points, [c.copy() for c in cls], **params)
            if extra.get("epoch_attr"): net.attrs["epoch"] = extra["epoch_attr"]
            net.description = "network %s" % name
            finish(net, frame, epoch)
            if extra.get("outlier"):
                ci, oi, add_ = extra["outlier"]
                net.clusters[ci].obs[oi].val += add_
            rename_all(net, PLAIN)
            nets.append(net)
        nets[0].name = nets[1].name = name
        nets[0].dimtype = nets[1].dimtype = dim
        out.append((name, nets[0], nets[1]))
    return out


# ---------------------------------------------------------------- statistics dimension
CONF_PR = [0.5, 0.9, 0.95, 0.975, 0.9545, 0.99, 0.999]
SIGMA_ACT = ["apriori", "aposteriori"]
NOISE = [("small", 0.05), ("unit", 1.0), ("large", 5.0)]      # factor on the noise pattern: m0'/m0 below / inside / above the interval


def _stat_templates():
    """(name, dim, points, clusters) with the degrees of freedom in the name: levelling 0 1 2 3 5, 2-D 0 1 2 4"""
    T = []
    lv = [dh("A", "C"), dh("C", "D"), dh("D", "A"), dh("A", "C", sd=2.0), dh("C", "D", sd=4.0), dh("A", "D"), dh("D", "C", sd=2.5)]
    for dof, n in ((0, 2), (1, 3), (2, 4), (3, 5), (5, 7)):
        T.append(("lev-dof%d" % dof, "1", [("A", "fix"), ("C", "adj"), ("D", "adj")], [Cluster("height-differences", [o.copy() for o in lv[:n]])]))
    pts = [("A", "fix"), ("B", "fix"), ("C", "adj")]
    T.append(("dd2-dof0", "2", pts, [station("A", di("B"), di("C")), station("B", di("A"), di("C"))]))
    T.append(("dd2-dof1", "2", pts, [station("A", di("B"), di("C"), ds("C")), station("B", di("A"), di("C"))]))
    T.append(("dd2-dof2", "2", pts, [station("A", di("B"), di("C"), ds("C")), station("B", di("A"), di("C"), ds("C"))]))
    T.append(("dd2-dof4", "2", pts, [station("A", di("B"), di("C"), ds("C")), station("B", di("A"), di("C"), ds("C")),
                                     station("C", di("A"), di("B"), ds("A"))]))
    return T


def stats_names():
    return [t[0] for t in _stat_templates()]


def stats_net(name, noise, sigma_act, conf_pr):
    """network of the statistics dimension: template x noise level x sigma-act x conf-pr"""
    (nm, dim, pts, cls) = [t for t in _stat_templates() if t[0] == name][0]
    net = Net([P(pn, dim, st) for (pn, st) in pts], [c.copy() for c in cls],
              **{"sigma-apr": 10, "conf-pr": conf_pr, "tol-abs": 1000, "sigma-act": sigma_act})
    net.description = "statistics %s noise %s" % (name, noise)
    finish(net, "ne-l", 0)
    f = dict(NOISE)[noise]
    for c in net.clusters:
        for o in c.obs: o.err = o.err * f
    gnet.fill_values(net)
    rename_all(net, PLAIN)
    net.name = name; net.dimtype = dim
    return net


# ---------------------------------------------------------------- angular values at 0 / 400 gon
WRAP_OFF = [-5, -1, 1, 5]          # consistent reading relative to 0 = 400 gon, in cc
WRAP_ERR = [-8, 8]                 # error put on that observation, in cc (the residual gets the other sign)
WRAP_FRAMES = ["ne-l", "en-r", "sw-l"]
WRAP_IDS = {"A": "A", "B": "B2", "C": "30", "D": "4", "E": "E", "F": "F6"}


def wrap_setting(k):
    """k in 0..7 -> (offset, error) in gon"""
    return (WRAP_OFF[k % 4] * 1e-4, WRAP_ERR[k // 4] * 1e-4)


def wrap_net(kd, ka, kz, frame, pat=0):
    """plane network with ONE direction (A->C), ONE angle (at A, C -> E) and ONE azimuth (A->F) whose consistent values lie
    WRAP_OFF cc from 0 / 400 gon and carry the error WRAP_ERR (settings kd, ka, kz in 0..7), all other observations with the
    usual noise (pattern pat in {0, 1}): observed values on both sides of the boundary, residuals of both signs, adjusted values crossing it or not"""
    import math
    (od, ed), (oa, ea), (oz, ez) = wrap_setting(kd), wrap_setting(ka), wrap_setting(kz if kz is not None else 0)
    G2R = math.pi / 200.0
    xa, ya = XY["A"]; xc, yc = XY["C"]
    bC = math.atan2(yc - ya, xc - xa)
    dC = math.hypot(xc - xa, yc - ya)
    pts = [Pt("A", xa, ya, None, xy="fix"), Pt("B", XY["B"][0], XY["B"][1], None, xy="fix"),
           Pt("C", xc, yc, None, xy="adj"), Pt("D", XY["D"][0], XY["D"][1], None, xy="adj"),
           Pt("E", xa + 1.4 * dC * math.cos(bC + oa * G2R), ya + 1.4 * dC * math.sin(bC + oa * G2R), None, xy="fix"),
           Pt("F", xa + 150.0 * math.cos(oz * G2R), ya + 150.0 * math.sin(oz * G2R), None, xy="adj")]
    sA = station("A", di("B"), di("C"), di("D"), ds("C"), ds("D"), an("C", "E"), az("F"), ds("F"))
    if kz is None: del sA.obs[6]          # the reference model of an azimuth holds for axes-xy="ne" only: no azimuth in the other frames
    sA.zero = bC / G2R - od
    cls = [sA, station("B", di("A"), di("C"), di("D"), di("F"), ds("C"), ds("D"), ds("F")),
           station("C", di("A"), di("B"), di("D"), ds("D"))]
    net = Net(pts, cls, **{"sigma-apr": 10, "conf-pr": 0.95, "tol-abs": 1000, "sigma-act": "aposteriori"})
    net.description = "angular values at 0/400: direction %d angle %d azimuth %s" % (kd, ka, kz)
    finish(net, frame, pat)
    sA.obs[1].err = ed; sA.obs[5].err = ea
    if kz is not None: sA.obs[6].err = ez
    gnet.fill_values(net)
    rename_all(net, WRAP_IDS)
    net.name = "wrap"; net.dimtype = "2"
    return net


# ---------------------------------------------------------------- status combinations (coordinates summary)
STATUS = [None, "fix", "adj", "con"]
POINT_STATES = [(sxy, sz) for sxy in STATUS for sz in STATUS if not (sxy is None and sz is None)]      # 15
_ST_ANCH = [("G1", 0.0, 0.0, 10.0), ("G2", 120.0, 10.0, 45.0), ("G3", 20.0, 130.0, 80.0)]
_ST_HELP = ("H", 70.0, 60.0, 30.0)
_ST_VAR = [("P1", 40.0, 50.0, 33.0), ("P2", 85.0, 35.0, 55.0), ("P3", 60.0, 95.0, 20.0)]


def state_name(st):
    return "/".join("%s+%s" % (a or "-", b or "-") for a, b in st)


def status_net(states):
    """3-D network: three fixed anchors, one adjusted helper point H and len(states) variable points; states[k] = (status of
    x,y, status of z) of point k, each None (the point has no such coordinate) / 'fix' / 'adj' / 'con'.  Adjustable coordinates
    are tied to the anchors (distances for x,y, height differences for z), every existing coordinate also to H, so each point
    takes part in the adjustment whatever its statuses are."""
    pts = [Pt(a, x, y, z, xy="fix", zs="fix") for (a, x, y, z) in _ST_ANCH]
    h = _ST_HELP
    pts.append(Pt(h[0], h[1], h[2], h[3], xy="adj", zs="adj"))
    dist = [Obs("distance", a[0], h[0], stdev=5.0) for a in _ST_ANCH]
    hd = [Obs("dh", a[0], h[0], stdev=3.0) for a in _ST_ANCH[:2]]
    for (pid, x, y, z), (sxy, sz) in zip(_ST_VAR, states):
        pts.append(Pt(pid, x if sxy else None, y if sxy else None, z if sz else None, xy=sxy, zs=sz))
        if sxy in ("adj", "con"): dist += [Obs("distance", a[0], pid, stdev=5.0) for a in _ST_ANCH]
        if sxy: dist.append(Obs("distance", pid, h[0], stdev=4.0))
        if sz in ("adj", "con"): hd += [Obs("dh", a[0], pid, stdev=3.0) for a in _ST_ANCH[:2]]
        if sz: hd.append(Obs("dh", pid, h[0], stdev=2.0))
    net = Net(pts, [Cluster("obs", dist), Cluster("height-differences", hd)],
              **{"sigma-apr": 10, "conf-pr": 0.95, "tol-abs": 1000, "sigma-act": "aposteriori"})
    net.description = "statuses " + state_name(states)
    finish(net, "ne-l", 0)
    net.name = "status"; net.dimtype = "3"
    return net


def rename_all(net, mp):
    for p in net.points: p.id = mp.get(p.id, p.id)
    for c in net.clusters:
        if c.frm is not None: c.frm = mp.get(c.frm, c.frm)
        for o in c.obs:
            for a in ("frm", "to", "bs", "fs"):
                v = getattr(o, a)
                if v is not None: setattr(o, a, mp.get(v, v))


# ---------------------------------------------------------------- identifier menu
MENU = [
    ("plain", "P7"),
    ("amp", "P&7"),
    ("lt", "P<7"),
    ("gt", "P>7"),
    ("quot", 'P"7'),
    ("apos", "P'7"),
    ("utf8-2byte", "Pé7à"),            # e-acute, a-grave (second byte 0xA0)
    ("utf8-3byte", "P€7点"),            # euro sign, CJK
    ("len40", "L234567890123456789012345678901234567890"),
    ("blanks", "  P7 \t "),                      # leading / trailing blanks
    ("inner-blank", "P  7"),                     # extension: inner blanks (PointID keeps one)
]
# escape-structure items: every ORDERED PAIR of special characters adjacent to
# each other (5 x 5, doubled ones included) and every special character as the
# first / as the last character of the string.  They are applied to the
# description, to one point id and to one extern position of every network.
SPECIALS = [("amp", "&"), ("lt", "<"), ("gt", ">"), ("quot", '"'), ("apos", "'")]
MENU_X = ([("pair-%s-%s" % (a, b), "P" + ca + cb + "7") for a, ca in SPECIALS for b, cb in SPECIALS] +
          [("first-%s" % a, ca + "P7") for a, ca in SPECIALS] +
          [("last-%s" % a, "P7" + ca) for a, ca in SPECIALS])
MENU_D = dict(MENU + MENU_X)
_X_TEXTS = set(t for _, t in MENU_X)


def sigclass(item, relevant):
    """character class used in a signature: the first of `relevant` (names of
    SPECIALS, in the given order) whose character occurs in the item's string,
    else the item name.  A defect that is triggered by one character is thus
    named by that character whatever else the string holds."""
    text = MENU_D[item]; d = dict(SPECIALS)
    for n in relevant:
        if d[n] in text: return n
    return item


def norm_id(s):
    """PointID::init: white space runs -> one blank, trimmed"""
    return re.sub(r"[ \t\n\r\f\v]+", " ", s).strip(" ")


def norm_ws(s):
    return re.sub(r"\s+", " ", s).strip()


def positions(net):
    """list of position keys: pt:<id> (the identifier of that point everywhere it
    is used), desc, ext:<cluster>:<obs> (extern attribute of that observation) /
    ext:<cluster>:c (extern of a coordinates cluster)"""
    pos = ["pt:" + p.id for p in net.points] + ["desc"]
    seen = set()
    for ci, c in enumerate(net.clusters):
        if c.kind == "coordinates":
            pos.append("ext:%d:c" % ci); continue
        for oi, o in enumerate(c.obs):
            if o.kind not in seen:
                seen.add(o.kind)
                pos.append("ext:%d:%d" % (ci, oi))
    return pos


def roles(net, pid):
    """structural class of a point identifier position (for signatures / evidence)"""
    r = set()
    p = net.pt(pid)
    st = [s for s in (p.xy, p.zs) if s]
    r.update(st)
    for c in net.clusters:
        for o in c.obs:
            if c.kind == "coordinates" and o.to == pid: r.add("coords")
            elif o.frm == pid: r.add("station")
            if c.kind != "coordinates" and pid in (o.to, o.bs, o.fs): r.add("target")
    return "+".join(sorted(r))


def apply(net, pos, text):
    """copy of net with the string at position pos replaced by text; returns
    (net, expectations) where expectations = dict(ids=..., desc=..., externs=[...])"""
    n = net.copy()
    n.inconsistent = getattr(net, "inconsistent", False)
    n.name = getattr(net, "name", "?"); n.dimtype = getattr(net, "dimtype", "?")
    for c, c0 in zip(n.clusters, net.clusters):
        c.extern = getattr(c0, "extern", None)
    if pos.startswith("pt:"):
        rename_all(n, {pos[3:]: text})
    elif pos == "desc":
        # escape-structure items are the whole description (first / last character matter)
        n.description = text if text in _X_TEXTS else "net " + text + " end"
    elif pos.startswith("ext:"):
        _, ci, oi = pos.split(":")
        c = n.clusters[int(ci)]
        if oi == "c": c.extern = text
        else: c.obs[int(oi)].extern = text
    return n


def gkf(net):
    """input XML; gnet.to_gkf writes `extern` of observed coordinates on the
    <point>, the format wants it on <coordinates>: patched here."""
    t = gnet.to_gkf(net)
    k = 0
    parts = t.split("<coordinates>")
    if len(parts) > 1:
        cl = [c for c in net.clusters if c.kind == "coordinates"]
        out = parts[0]
        for i, rest in enumerate(parts[1:]):
            e = getattr(cl[i], "extern", None)
            out += ("<coordinates extern=\"%s\">" % gnet.xesc(e) if e is not None else "<coordinates>") + rest
        t = out
    return t
