"""g3mc engine (check C19): evaluation of one generated network on the real
gama-g3 executable (4 algorithms) and on GNU_gama::Adj (replay of the
--project-equations dump through harness/g3mc).  Python stdlib only.

A *case* is the string
    pl=<place>;n=<npts>;T=<type+type...>;S=<pos hgt codes per point, comma separated>;M=<mode>[;PP=<point order>;RP=<record order>]
       [;RS=<record selection>][;GR=<sizes of the <obs> clusters>][;AL=<algorithms>][;LY=<layout>][;DH=<height code per record>]
(LY=1: layout "ray" of g3gen with angles next to 0 / 400 gon; DH: - none, f <from-dh>, t <to-dh>, b both, see dh_strings)
with status codes x (fixed) f (free) c (constr), e.g.  S=xx,ff,cf  and modes
    true   approximate coordinates = generating coordinates
    pert   approximate coordinates displaced by 0.3-0.6 mm in every referenced
           non-fixed local component: the second order term of the single
           Gauss-Newton step of gama-g3 is < 1e-9 m, and a design matrix that
           neglects terms of relative size <= 3e-3 (tilt of the vertical with
           the station position) still reproduces the generating coordinates
           within 2e-6 m, while a wrong sign or factor leaves 0.1-1 mm
    far    (vector / xyz only: linear model) displaced by 0.17-0.34 m
    omit   (vector / xyz only) coordinates of the non-fixed points omitted
    tolin  (vector / xyz only) every point whose n, e, u can all move is displaced in
           geocentric X, Y, Z by  m_P * (sign pattern SG)  metres, m = 0.80, -0.15, 0.75,
           0.30 for A..D: every component of every absolute term (point against a
           fixed point or an observed xyz: 0.80, 0.15, 0.75; between two displaced
           points: 0.95, 0.90, 0.05 ...) stays INSIDE the rejection tolerance tol-abs
           (Model::tol_abs = 1000 mm, per component), while the lengths 1.3 - 1.65 m
           are beyond it: nothing may be rejected, the linear model reproduces the truth
    tolout the same, but component OC of the first displaced point is 1.05 m: every
           vector / xyz with an absolute term beyond tol-abs in that component - and no
           other - is rejected (documented for tol-abs in doc/gama-local-adj.texi:
           "Observations with outlying absolute terms are always excluded")
    noisy  (vector / xyz only, determined networks) approximate = true,
           observations perturbed by a fixed +-mm pattern; reference =
           own weighted least squares
"""
import itertools, math, os, subprocess
import g3ref as R
import g3gen as G

ALGS = ("envelope", "gso", "svd", "cholesky")
TYPES = ("vector", "xyz", "distance", "height", "hdiff", "zenith", "angle")   # the supported alphabet
EXTRA_TYPES = ("azimuth",)                                                     # refused by the parser (known finding): single-type family only
LINEAR = ("vector", "xyz")

RAD_TO_CC = 200.0e4 / math.pi
TOL_XYZ = 2e-6       # m   adjusted vs generating coordinate
TOL_DNEU = 0.002     # mm  printed with 3 decimals
TOL_RES = 1.1e-5     # m   residuals are printed with 5 decimals

PERT = {"A": (0.00052, -0.00033, 0.00043), "B": (-0.00041, 0.00057, -0.00029),
        "C": (0.00031, 0.00047, -0.00055), "D": (-0.00053, -0.00036, 0.00044)}
FAR_FACTOR = 600.0
# rejection tolerance of the absolute terms: Model::tol_abs = 1e3 (g3_model.cpp) in the unit of the right-hand
# sides, mm; the generated input has no <tol-abs>.  Tested per component for <vector> and <xyz>.
TOL_ABS = 1.0                                             # m
TOL_IN = {"A": 0.80, "B": -0.15, "C": 0.75, "D": 0.30}    # m per component, times the sign pattern: inside
TOL_OUT = 1.05                                            # m: just outside, one component of one point
MAX_PERT = max(abs(v) for p in PERT.values() for v in p)
NOISE = (0.0031, -0.0024, 0.0017, -0.0029, 0.0022, 0.0035, -0.0019, 0.0027, -0.0033)

IN_LINE = 3e-8      # rad: below this an arc cosine of a normalised dot product cannot tell the angle from 0
G3_TIMEOUT = 2.0    # s; a run takes 3 ms
CFG = {"exe": None, "replayer": None, "tmp": None}      # filled by the driver before the pool forks


# ----------------------------------------------------------------------- case strings
def case_str(sp):
    s = "pl=%d;n=%d;T=%s;S=%s;M=%s" % (sp["place"], sp["npts"], "+".join(sp["types"]),
                                      ",".join(sp["status"]), sp["mode"])
    if sp.get("pp") is not None:
        s += ";PP=" + "".join(str(i) for i in sp["pp"])
    if sp.get("rp") is not None:
        s += ";RP=" + ".".join(str(i) for i in sp["rp"])
    if sp.get("recs") is not None:
        s += ";RS=" + ".".join(str(i) for i in sp["recs"])
    if sp.get("grp") is not None:
        s += ";GR=" + ".".join(str(i) for i in sp["grp"])
    if sp.get("algs") is not None:
        s += ";AL=" + "+".join(sp["algs"])
    if sp.get("lay"):
        s += ";LY=%d" % sp["lay"]
    if sp.get("dh") and set(sp["dh"]) != {"-"}:
        s += ";DH=" + sp["dh"]
    if sp.get("sg"):
        s += ";SG=" + sp["sg"]
    if sp.get("oc") is not None:
        s += ";OC=%d" % sp["oc"]
    return s


def parse_case(s):
    d = dict(kv.split("=", 1) for kv in s.split(";"))
    sp = {"place": int(d["pl"]), "npts": int(d["n"]), "types": tuple(d["T"].split("+")),
          "status": tuple(d["S"].split(",")), "mode": d["M"]}
    if "PP" in d:
        sp["pp"] = tuple(int(c) for c in d["PP"])
    if "RP" in d:
        sp["rp"] = tuple(int(c) for c in d["RP"].split("."))
    if "RS" in d:
        sp["recs"] = tuple(int(c) for c in d["RS"].split("."))
    if "GR" in d:
        sp["grp"] = tuple(int(c) for c in d["GR"].split("."))
    if "AL" in d:
        sp["algs"] = tuple(d["AL"].split("+"))
    if "LY" in d:
        sp["lay"] = int(d["LY"])
    if "DH" in d:
        sp["dh"] = d["DH"]
    if "SG" in d:
        sp["sg"] = d["SG"]
    if "OC" in d:
        sp["oc"] = int(d["OC"])
    return sp


# ----------------------------------------------------------------------- reference side (cached per process)
_cache = {}


def geometry(place, npts, lay=0):
    key = ("geo", place, npts, lay)
    if key not in _cache:
        T = G.truth(place, npts, lay)
        X = G.fl(T)
        fr = G.frames_of(X)
        cand = G.candidates(npts)
        # angles are taken as they come (clockwise left -> right, 0..400 gon): the ring
        # candidates plus the explement of the first one, so every network with angles
        # holds at least one angle above 200 gon
        _cache[key] = (T, X, fr, cand)
    return _cache[key]


def geo(sp):
    return geometry(sp["place"], sp["npts"], sp.get("lay", 0))


def type_rows(place, npts, t, lay=0):
    """reference Jacobian rows of all candidates of type t: list (per obs) of list of dict rows"""
    key = ("rows", place, npts, t, lay)
    if key not in _cache:
        T, X, fr, cand = geometry(place, npts, lay)
        _cache[key] = [R.jacobian_rows(o, X, fr, G.GEOID) for o in cand[t]]
    return _cache[key]


# ----------------------------------------------------------------------- instrument / target heights
# sp["dh"]: one code per record of the network (canonical order, after the selection sp["recs"]):
#   -  no height given      f  <from-dh>      t  <to-dh>      b  both
# The values differ from record to record and between the two ends (a value that is carried over
# from another record or from the other end never fits), 0.15 - 0.44 m, every fourth to-dh negative
# (antenna reference point below the mark).  They are kept below half a metre because gama's
# distance row is built from the marks, not from instrument and target: its direction is off by
# dh/s <= 3e-4 on sights >= 1.6 km, which after the single step from displaced approximate
# coordinates (<= 1.6 mm between two points) leaves <= 5e-7 m.
DH_CODES = {"-": (False, False), "f": (True, False), "t": (False, True), "b": (True, True)}


def dh_strings(i):
    f = "%.3f" % (0.150 + 0.045 * (i % 7))
    t = "%.3f" % ((0.440 - 0.035 * (i % 9)) * (-1.0 if i % 4 == 3 else 1.0))
    return f, t


def dh_alphabet(o, both_only=False):
    """the codes an observation of this type can carry"""
    ends = R.DH_ENDS.get(o[0], "")
    if ends == "ft":
        return "-b" if both_only else "-ftb"
    if ends == "f":
        return "-f"
    return "-"


def records(sp):
    """list of (observation, reference rows) of the network, canonical order"""
    lay = sp.get("lay", 0)
    T, X, fr, cand = geometry(sp["place"], sp["npts"], lay)
    out = []
    for t in sp["types"]:
        rows = type_rows(sp["place"], sp["npts"], t, lay)
        for o, rw in zip(cand[t], rows):
            out.append((o, rw))
    if sp.get("recs") is not None:
        out = [out[i] for i in sp["recs"]]
    mask = sp.get("dh")
    if mask:
        assert len(mask) == len(out), "dh mask %r does not fit %d records" % (mask, len(out))
        for i, code in enumerate(mask):
            if code == "-":
                continue
            o = out[i][0]
            ends = R.DH_ENDS.get(o[0], "")
            wf, wt = DH_CODES[code]
            assert (not wf or "f" in ends) and (not wt or "t" in ends), "record %s cannot carry dh code %s" % (" ".join(o), code)
            f, t_ = dh_strings(i)
            key = ("dhrows", sp["place"], sp["npts"], lay, tuple(o), i, code)
            if key not in _cache:
                ob = R.Ob(o, (f if wf else None, t_ if wt else None))
                _cache[key] = (ob, R.jacobian_rows(ob, X, fr, G.GEOID))
            out[i] = _cache[key]
    return out


def classify(sp):
    """reference model of the network: parameters, equations, exact defect, class"""
    key = ("cls", sp["place"], sp["npts"], sp["types"], sp["status"], sp.get("recs"), sp.get("lay", 0), sp.get("dh"))
    if key in _cache:
        return _cache[key]
    ids = G.IDS[:sp["npts"]]
    st = dict(zip(ids, sp["status"]))
    recs = records(sp)
    cols = []         # (pid, k) of referenced, non-fixed parameters in order of first reference
    seen = set()
    neq = 0
    for o, _ in recs:
        neq += R.DIM[o[0]]
        for pid in R.obs_points(o):
            ks = (0, 1, 2) if R.USES_NEU[o[0]] else (2,)
            for k in ks:
                code = st[pid][0] if k < 2 else st[pid][1]
                if code != "x" and (pid, k) not in seen:
                    seen.add((pid, k))
                    cols.append((pid, k))
    cidx = {c: i for i, c in enumerate(cols)}
    M = []
    for o, rows in recs:
        for rw in rows:
            # natural scale of the row: its largest derivative w.r.t. any coordinate of its points
            m = max(abs(v) for v in rw.values())
            r = [0.0] * len(cols)
            for c, v in rw.items():
                if c in cidx:
                    r[cidx[c]] = v / m
            M.append(r)
    S = [i for i, (pid, k) in enumerate(cols) if (st[pid][0] if k < 2 else st[pid][1]) == "c"]
    feat = "-"
    for o, _ in recs:
        if o[0] == "angle" and any(st[p][0] != "x" and st[p][1] == "x" for p in R.obs_points(o)):
            feat = "angle-pt-NEfree-Ufixed"
    # the height of an angle target enters the angle only through the tilt of its
    # vertical against the station's (relative size 1e-7 and less): structurally
    # non-zero but numerically nothing.  If no other row determines such a column
    # the network is neither singular nor regular: ambiguous.
    weak = False
    for o, _ in recs:
        if o[0] == "angle":
            for pid in o[2:]:
                j = cidx.get((pid, 2))
                if j is not None and max(abs(r[j]) for r in M) < R.ACCEPT:
                    weak = True
    # gama's zenith row is the plane formula: it leaves out the turn of the station's
    # vertical with the station's position (1/R rad per metre against |u|/s rad per
    # metre of the horizontal coefficient).  eps_zen = largest such ratio in the network.
    eps_zen = 0.0
    T_, X_, fr_, cand_ = geo(sp)
    for o, _ in recs:
        if o[0] == "zenith":
            dh_ = getattr(o, "dh", (0.0, 0.0))
            n_, e_, u_ = R.local(R.lifted(X_[o[1]], dh_[0]), R.lifted(X_[o[2]], dh_[1]))
            eps_zen = max(eps_zen, (1.0 / 6.33e6) / (abs(u_) / (n_ * n_ + e_ * e_ + u_ * u_)))
    if not cols:
        res = dict(cols=cols, neq=neq, defect=None, basis=[], S=S, cls="noparams", feat=feat, eps_zen=eps_zen)
    else:
        rank, basis, status = R.rank_nullspace(M, len(cols))
        defect = len(cols) - rank
        if status != "ok" or weak:
            cls = "ambiguous"
        elif defect == 0:
            cls = "determined"
        else:
            rs = R.resolves(basis, S)
            cls = {"yes": "resolved", "no": "unresolved", "ambiguous": "ambiguous"}[rs]
            # A null space is only "exact" if it does not rest on a cancellation inside a
            # row that an implementation may legitimately approximate (zenith angles and
            # angles: plane formulae, neglected tilt of the verticals, relative 1e-7 .. 6e-3).
            # If such a row touches a parameter on which the null space lives, the rank of
            # the implementation's matrix is decided by those neglected terms: ambiguous.
            Q = R.orthonormal(basis)
            support = set(j for j in range(len(cols)) if max(abs(q[j]) for q in Q) > 1e-6)
            for o, _ in recs:
                if o[0] == "zenith":
                    touched = [(p_, k) for p_ in o[1:] for k in range(3)]
                elif o[0] == "angle":
                    touched = [(p_, k) for p_ in o[1:] for k in (0, 1)] + [(p_, 2) for p_ in o[2:]]
                else:
                    continue
                if any(cidx.get(c) in support for c in touched if c in cidx):
                    cls = "ambiguous" if cls == "resolved" else cls
        res = dict(cols=cols, neq=neq, defect=defect, basis=R.orthonormal(basis) if basis else [], S=S, cls=cls, feat=feat, eps_zen=eps_zen)
    _cache[key] = res
    return res


# ----------------------------------------------------------------------- input file
def approx_coords(sp):
    T, X, fr, cand = geo(sp)
    ids = G.IDS[:sp["npts"]]
    st = dict(zip(ids, sp["status"]))
    out = {}
    mode = sp["mode"]
    cols = set(classify(sp)["cols"])
    first_out = mode == "tolout"
    for pid in ids:
        if mode in ("true", "noisy") or st[pid] == "xx":
            out[pid] = tuple(str(c) for c in T[pid])
        elif mode in ("tolin", "tolout"):
            # geocentric displacement of the points that can move freely in space
            if all((pid, k) in cols for k in range(3)):
                sg = [1.0 if c == "+" else -1.0 for c in sp.get("sg", "+++")]
                d = [TOL_IN[pid] * sg[i] for i in range(3)]
                if first_out:
                    d[sp.get("oc", 0)] = TOL_OUT * sg[sp.get("oc", 0)] * (1.0 if TOL_IN[pid] > 0 else -1.0)
                    first_out = False
                out[pid] = tuple("%.10f" % (X[pid][i] + d[i]) for i in range(3))
            else:
                out[pid] = tuple(str(c) for c in T[pid])
        elif mode == "omit":
            out[pid] = None if (st[pid][0] != "x" and st[pid][1] != "x") else tuple(str(c) for c in T[pid])
        else:
            # displace only what the adjustment can move: referenced, non-fixed parameters
            f = FAR_FACTOR if mode == "far" else 1.0
            d = [PERT[pid][k] * f if (pid, k) in cols else 0.0 for k in range(3)]
            p = X[pid]
            for k in range(3):
                p = R.add(p, R.mul(fr[pid][k], d[k]))
            out[pid] = tuple("%.10f" % c for c in p)
    return out


def observed_strings(sp, recs):
    T, X, fr, cand = geo(sp)
    out = []
    j = 0
    for o, _ in recs:
        v = G.obs_strings(o, X, T)
        if sp["mode"] == "noisy":
            from decimal import Decimal
            w = []
            for s in v:
                w.append(str(Decimal(s) + Decimal(repr(NOISE[j % len(NOISE)]))))
                j += 1
            v = tuple(w)
        out.append(v)
    return out


def predicted_rejections(recs, vals, approx):
    """reference side of the tol-abs test: the vector / xyz records with a component of the absolute term
    (observed - computed from the approximate coordinates) beyond TOL_ABS; None if a component lies within
    1e-6 m of the tolerance (undecidable: not generated)"""
    if any(v is None for v in approx.values()):
        return []
    Xa = {pid: tuple(float(c) for c in v) for pid, v in approx.items()}
    out = []
    for (o, _), v in zip(recs, vals):
        if o[0] in LINEAR:
            m = [float(s) - f for s, f in zip(v, R.obs_value(o, Xa, G.GEOID))]
            if any(abs(abs(c) - TOL_ABS) < 1e-6 for c in m):
                return None
            if any(abs(c) > TOL_ABS for c in m):
                out.append((o[0], tuple(o[1:])))
    return out


def omit_has_seed(sp):
    """mode omit: the positions of all points must be derivable from a given position
    (a point that keeps its coordinates, or an observed xyz) through the vectors"""
    ap = approx_coords(sp)
    have = set(p for p, v in ap.items() if v is not None)
    recs = records(sp)
    for o, _ in recs:
        if o[0] == "xyz":
            have.add(o[1])
    changed = True
    while changed:
        changed = False
        for o, _ in recs:
            if o[0] == "vector" and ((o[1] in have) != (o[2] in have)):
                have.update((o[1], o[2]))
                changed = True
    return all(p in have for p in ap)


def build_input(sp):
    ids = G.IDS[:sp["npts"]]
    st = {pid: (G.CODE_STAT[c[0]], G.CODE_STAT[c[1]]) for pid, c in zip(ids, sp["status"])}
    recs = records(sp)
    vals = observed_strings(sp, recs)
    xmls = [G.obs_xml(o, v, k, variance=(k % 3 == 2)) for k, ((o, _), v) in enumerate(zip(recs, vals))]
    rp = sp.get("rp") or tuple(range(len(xmls)))
    pp = sp.get("pp") or tuple(range(len(ids)))
    ordered = [xmls[i] for i in rp]
    if sp.get("grp"):
        # consecutive records merged into one <obs> cluster (sizes sp["grp"]): each record keeps its own
        # covariance piece (<cov-mat> / <stdev> / <variance>), the cluster matrix is their block diagonal
        merged = []; k = 0
        for size in sp["grp"]:
            body = "".join(x[len("<obs>\n"):-len("</obs>\n")] for x in ordered[k:k + size])
            merged.append("<obs>\n" + body + "</obs>\n"); k += size
        assert k == len(ordered)
        ordered = merged
    return G.make_xml([ids[i] for i in pp], approx_coords(sp), st, ordered), recs, vals, rp


# ----------------------------------------------------------------------- running
def run_g3(xml_path, alg, out_path, pe_path, patient=True):
    """one run of the real executable.  A run takes 3 ms; it is given 2 s and,
    unless the case belongs to a class that is known to hang, a second chance
    of 60 s so that a loaded machine cannot produce a verdict."""
    cmd = [CFG["exe"], "--algorithm", alg]
    if pe_path:
        cmd += ["--project-equations", pe_path]
    cmd += [xml_path, out_path]
    rc, err = -999, "timeout"
    for tmo in ((G3_TIMEOUT, 60.0) if patient else (G3_TIMEOUT,)):
        for p in (out_path, pe_path):
            if p and os.path.exists(p):
                os.unlink(p)
        try:
            r = subprocess.run(cmd, stdout=subprocess.PIPE, stderr=subprocess.PIPE, text=True, timeout=tmo, errors="replace")
            rc, err = r.returncode, r.stderr
            break
        except subprocess.TimeoutExpired:
            rc, err = -999, "timeout"
    out = ""
    if os.path.exists(out_path):
        with open(out_path, errors="replace") as f:
            out = f.read()
    pe = ""
    if pe_path and os.path.exists(pe_path):
        with open(pe_path, errors="replace") as f:
            pe = f.read()
    return rc, err, out, pe


def run_replay(pe_path):
    try:
        r = subprocess.run([CFG["replayer"], "--files", pe_path], stdout=subprocess.PIPE, stderr=subprocess.PIPE,
                           text=True, timeout=120, errors="replace")
    except subprocess.TimeoutExpired:
        return {"error": "timeout"}
    res = {"rc": r.returncode, "algs": {}, "error": None, "P": None, "stderr": r.stderr[-400:]}
    for line in r.stdout.splitlines():
        f = line.split("\t")
        if f[0] == "E":
            res["error"] = f[1]
        elif f[0] == "P":
            res["P"] = tuple(int(v) for v in f[1:5])
        elif f[0] == "R":
            if f[2] == "ok":
                nx = int(f[6])
                x = [float(v) for v in f[7:7 + nx]]
                nr = int(f[8 + nx])
                rr = [float(v) for v in f[9 + nx:9 + nx + nr]]
                res["algs"][f[1]] = {"ok": True, "defect": int(f[3]), "rtr": float(f[4]), "x": x, "r": rr}
            else:
                res["algs"][f[1]] = {"ok": False, "exc": f[3] if len(f) > 3 else ""}
    if r.returncode != 0 and not res["error"]:
        res["error"] = "replayer rc=%s %s" % (r.returncode, r.stderr[-200:])
    return res


# ----------------------------------------------------------------------- oracle helpers
def adjusted_xyz(p):
    """adjusted coordinates of a parsed point (given ones for a fixed point)"""
    out = []
    for c in "xyz":
        s = p.get(c + "_adjusted") or p.get(c + "_given")
        if s is None:
            return None
        out.append(float(s))
    return tuple(out)


def col_index(res):
    """g3 parameter index -> (pid, k) from the <ind> tags of the result"""
    m = {}
    for pid, p in res["points"].items():
        for k, c in enumerate("neu"):
            if ("i" + c) in p:
                m[p["i" + c]] = (pid, k)
    return m


def scale_of(o):
    return RAD_TO_CC / 1e3 if o[0] in R.ANGULAR or o[0] == "angle" else 1.0


def bad_rows(sp, recs, vals, rp, res, pe, approx):
    """diagnostic classifier (part of the violation signature, not an oracle):
    the observation types whose rows of the dumped design matrix disagree with
    the reference Jacobian (by more than 2e-3 of the largest entry of the row)
    with the kind of coefficient that is wrong (angle: from / left / right
    point; other types: h = n,e coefficient, u = up coefficient), and (prefix
    rhs:) the types whose right hand sides disagree with
    observed - computed(approximate) by more than 1e-3 mm / cc.
    Example:  angle:left+zenith:h+rhs:angle"""
    if not pe or not res:
        return "n/a"
    cmap = col_index(res)
    known = set(cmap.values())
    bad = set()
    badc = {}
    Xa = None
    if approx and all(v is not None for v in approx.values()):
        Xa = {pid: tuple(float(c) for c in v) for pid, v in approx.items()}
    row = 0
    for i in rp:
        o, rows = recs[i]
        sc = scale_of(o)
        f0 = R.obs_value(o, Xa, G.GEOID) if Xa else None
        for comp, rw in enumerate(rows):
            if row >= len(pe["A"]) or row >= len(pe["rhs"]):
                return "n/a"
            got = {}
            for (ci, v) in pe["A"][row]:
                key = cmap.get(ci, ("?", ci))
                got[key] = got.get(key, 0.0) + v
            nrm = max(abs(v) for v in rw.values()) * sc
            for c in set(got) | set(c for c in rw if c in known):
                if abs(got.get(c, 0.0) - rw.get(c, 0.0) * sc) > 2e-3 * nrm:
                    # which coefficient: for angles the role of the point, otherwise
                    # horizontal (n,e) or vertical (u) component
                    if c[0] == "?":
                        tag = "unmapped-column"
                    elif o[0] == "angle":
                        tag = ("from", "left", "right")[R.obs_points(o).index(c[0])]
                    else:
                        tag = "h" if c[1] < 2 else "u"
                    badc.setdefault(o[0], set()).add(tag)
            if f0 is not None:
                ov = float(vals[i][comp]) * (R.GON if o[0] in R.ANGULAR else 1.0)
                d = R.obs_diff(o, (ov,), (f0[comp],))[0] * (RAD_TO_CC if o[0] in R.ANGULAR else 1e3)
                if abs(pe["rhs"][row] - d) > 1e-3:
                    bad.add("rhs:" + o[0])
            row += 1
    parts = ["%s:%s" % (t, ".".join(sorted(v))) for t, v in sorted(badc.items())] + sorted(bad)
    return "+".join(parts) if parts else "none"


def wls_reference(sp, recs, vals, cl):
    """own weighted least squares for the noisy linear family (determined
    networks): returns {(pid,k): correction [m]}"""
    cols = cl["cols"]
    n = len(cols)
    cidx = {c: i for i, c in enumerate(cols)}
    T, X, fr, cand = geo(sp)
    N = [[0.0] * n for _ in range(n)]
    rhs = [0.0] * n
    for k, ((o, rows), v) in enumerate(zip(recs, vals)):
        c = G.COV3[k % len(G.COV3)] if o[0] == "vector" else G.COV3[(k + 1) % len(G.COV3)]
        C = [[c[0], c[1], c[2]], [c[1], c[3], c[4]], [c[2], c[4], c[5]]]
        # inverse of the symmetric 3x3
        det = (C[0][0] * (C[1][1] * C[2][2] - C[1][2] * C[2][1]) - C[0][1] * (C[1][0] * C[2][2] - C[1][2] * C[2][0])
               + C[0][2] * (C[1][0] * C[2][1] - C[1][1] * C[2][0]))
        P = [[0.0] * 3 for _ in range(3)]
        for i in range(3):
            for j in range(3):
                a, b = [x for x in range(3) if x != i], [x for x in range(3) if x != j]
                P[j][i] = ((-1) ** (i + j)) * (C[a[0]][b[0]] * C[a[1]][b[1]] - C[a[0]][b[1]] * C[a[1]][b[0]]) / det
        f0 = R.obs_value(o, X)
        l = [float(s) - f for s, f in zip(v, f0)]          # misclosure [m]
        A = []
        for rw in rows:
            r = [0.0] * n
            for cc, val in rw.items():
                if cc in cidx:
                    r[cidx[cc]] = val
            A.append(r)
        for i in range(3):
            for j in range(3):
                w = P[i][j]
                for a in range(n):
                    if A[i][a] == 0.0:
                        continue
                    rhs[a] += A[i][a] * w * l[j]
                    for b in range(n):
                        N[a][b] += A[i][a] * w * A[j][b]
    # Gauss elimination with partial pivoting
    M = [N[i] + [rhs[i]] for i in range(n)]
    for c in range(n):
        p = max(range(c, n), key=lambda i: abs(M[i][c]))
        M[c], M[p] = M[p], M[c]
        for i in range(n):
            if i != c and M[i][c] != 0.0:
                f = M[i][c] / M[c][c]
                for j in range(c, n + 1):
                    M[i][j] -= f * M[c][j]
    return {cols[i]: M[i][n] / M[i][i] for i in range(n)}


# ----------------------------------------------------------------------- the evaluation of one case
def types_sig(sp):
    return "+".join(sp["types"])


def exit_kind(rc, err):
    if rc == -999:
        return "timeout"
    if rc < 0:
        return "crash"
    if "XML parser error" in err:
        return "parser-error"
    if "###" in err:
        return "exception"
    return "rc=%s" % rc


def evaluate(sp):
    """run one case (class determined / resolved) on gama-g3 x 4 algorithms and on
    the Adj replayer.  Returns dict(case, cls, viol=[(sig, detail)], outcomes, counters, files, sample)."""
    cs = case_str(sp)
    cl = classify(sp)
    cls = cl["cls"]
    out = {"case": cs, "cls": cls, "viol": [], "outcomes": [], "counters": {}, "files": {}, "sample": None}
    if cls not in ("determined", "resolved"):
        out["outcomes"].append("excluded:" + cls)
        return out
    if sp["mode"] == "noisy" and cls != "determined":
        out["outcomes"].append("excluded:noisy-needs-determined")     # the own least squares reference has no datum handling
        return out
    if sp["mode"] == "omit" and not omit_has_seed(sp):
        out["outcomes"].append("excluded:omit-without-any-given-position")
        return out
    tsig = types_sig(sp)
    mode = sp["mode"]
    raw = []                     # (clause, extra, detail); the signature is completed at the end

    def V(clause, extra, detail):
        raw.append((clause, extra, detail))

    def Cn(k, n=1):
        out["counters"][k] = out["counters"].get(k, 0) + n

    xml, recs, vals, rp = build_input(sp)
    approx = approx_coords(sp)
    # tol-abs: which records must be rejected (modes tolin: none, by construction; tolout: some)
    pred = predicted_rejections(recs, vals, approx) if mode in ("far", "tolin", "tolout") else []
    if pred is None or (pred and len(pred) == len(recs)):
        out["outcomes"].append("excluded:%s" % ("absolute-term-on-the-tolerance" if pred is None else "every-observation-beyond-tol-abs"))
        return out
    if pred:
        # what is left must still have a parameter (gama-g3 stops with "No parameters and/or observations" otherwise)
        stt = dict(zip(G.IDS[:sp["npts"]], sp["status"]))
        kept = [o for o, _ in recs if (o[0], tuple(o[1:])) not in pred]
        if not any(stt[p_] != "xx" and (R.USES_NEU[o[0]] or stt[p_][1] != "x") for o in kept for p_ in R.obs_points(o)):
            out["outcomes"].append("excluded:no-parameter-left-after-rejection")
            return out
    if mode in ("tolin", "tolout"):
        big = sum(1 for (o, _), v in zip(recs, vals) if o[0] in LINEAR and (o[0], tuple(o[1:])) not in pred
                  and math.sqrt(sum((float(s) - f) ** 2 for s, f in zip(v, R.obs_value(o, {p_: tuple(float(c) for c in a_) for p_, a_ in approx.items()}, G.GEOID)))) > TOL_ABS)
        if big:
            Cn("records_kept_with_absolute_term_longer_than_tol_abs", big)
        if pred:
            Cn("records_to_be_rejected", len(pred))
    T, X, fr, cand = geo(sp)
    ids = G.IDS[:sp["npts"]]
    # tolerance of "adjusted = generating": 2e-6 m, plus - from displaced approximate
    # coordinates only - what the neglected turn of the vertical in a plane zenith row can
    # leave after the single step of gama-g3: eps_zen (<= 6.5e-3 here) x displacement (<= 0.57 mm)
    tol_xyz = TOL_XYZ + (cl["eps_zen"] * MAX_PERT if mode == "pert" else 0.0)
    # vacuity counters of the generator (not an oracle): angles whose observed value and whose value
    # computed from the displaced approximate coordinates lie on different sides of 0 / 400 gon
    wraps = set()
    # ... and (diagnostic part of a signature, not an oracle) angles whose two targets lie in one direction
    # within IN_LINE as seen from the approximate coordinates: their computed value is 0 to 1e-8 rad
    in_line = 0
    if mode == "pert":
        Xap = {pid: tuple(float(c) for c in v) for pid, v in approx.items()}
        for (o, _), v in zip(recs, vals):
            if o[0] == "angle":
                comp = R.obs_value(o, Xap, G.GEOID)[0]
                d = float(v[0]) * R.GON - comp
                if d < -math.pi:
                    Cn("angles_observed_above_0_computed_below_400"); wraps.add("obs>0,comp<400")
                elif d > math.pi:
                    Cn("angles_observed_below_400_computed_above_0"); wraps.add("obs<400,comp>0")
                if abs(R._wrap(comp)) < IN_LINE:
                    in_line += 1
        if in_line:
            Cn("angles_computed_as_0_within_3e-8_rad", in_line)
    ndh = sum(1 for o, _ in recs if any(getattr(o, "dhs", (None, None))[i] is not None for i in (0, 1)))
    if ndh:
        Cn("records_with_from_dh_or_to_dh", ndh)
    base = os.path.join(CFG["tmp"], "c%d" % os.getpid())
    xml_path = base + ".xml"
    with open(xml_path, "w") as f:
        f.write(xml)
    out["files"]["input.xml"] = xml
    algs = sp.get("algs") or ALGS
    results = {}
    dumps = {}
    for a in algs:
        rc, err, text, pe = run_g3(xml_path, a, base + "." + a + ".out", base + "." + a + ".pe")
        Cn("g3_runs")
        res = G.parse_results(text) if rc == 0 else None
        results[a] = (rc, err, res)
        dumps[a] = pe
    # ---- clause E: exit status 0 and an adjustment document without nan / inf
    okalgs = []
    for a in algs:
        rc, err, res = results[a]
        if rc != 0 or res is None:
            kind = exit_kind(rc, err)
            V("exit", "%s|%s|%s" % (cls, mode, kind), "algorithm %s: exit status %s, stderr: %s" % (a, rc, " ".join(err.split())[:200]))
            out["outcomes"].append("exit:%s" % kind)
        elif res["nonfinite"]:
            V("nonfinite-angle-targets-in-line" if in_line else "nonfinite", "%s|%s|%s" % (cls, mode, a), "algorithm %s: nan/inf in the adjustment document" % a)
            out["outcomes"].append("nonfinite%s" % ("-angle-targets-in-line" if in_line else ""))
        else:
            okalgs.append(a)
    if pred:
        # the network after the rejection is another network: only the rejection itself is judged
        drop = sum(R.DIM[t] for t, _ in pred)
        for a in okalgs:
            res = results[a][2]
            if sorted(res["rejected_list"]) != sorted(pred):
                V("rejection-set", "%s|%s|%s" % (cls, mode, a), "algorithm %s rejects %s; absolute terms beyond tol-abs = %g m in a component: %s"
                  % (a, sorted(res["rejected_list"]), TOL_ABS, sorted(pred)))
            elif res["equations"] != cl["neq"] - drop:
                V("rejection-equations", "%s|%s|%s" % (cls, mode, a), "algorithm %s: equations %s, reference %d - %d rejected" % (a, res["equations"], cl["neq"], drop))
        if okalgs:
            out["outcomes"].append("rejected-by-tol-abs:%d-of-%d-records:%s" % (len(pred), len(recs), mode))
            out["sample"] = "%s -> %d of %d records beyond tol-abs in one component, rejected" % (cs, len(pred), len(recs))
        for clause, extra, detail in raw:
            out["viol"].append(("C19|%s|T=%s|br=n/a|%s|%s" % (clause, tsig, cl["feat"], extra), "%s :: %s" % (cs, detail)))
        return out
    npar = len(cl["cols"])
    red = cl["neq"] - npar + cl["defect"]
    pe0 = None
    if okalgs:
        a0 = okalgs[0]
        r0 = results[a0][2]
        pe0 = G.parse_projeq(dumps[a0]) if dumps[a0] else None
    # ---- clause S: statistics
    for a in okalgs:
        res = results[a][2]
        if res["rejected"]:
            V("rejected", "%s|%s" % (cls, mode), "algorithm %s: %d consistent observations rejected" % (a, res["rejected"]))
        if res["parameters"] != npar or res["equations"] != cl["neq"]:
            V("stats-dimensions", "%s|%s" % (cls, mode),
              "algorithm %s: parameters %s equations %s, reference %d %d" % (a, res["parameters"], res["equations"], npar, cl["neq"]))
        else:
            if res["defect"] != cl["defect"]:
                V("defect", "%s|%s|%s" % (cls, mode, a),
                  "algorithm %s reports defect %s, exact nullity of the reference Jacobian is %d (parameters %d, equations %d)"
                  % (a, res["defect"], cl["defect"], npar, cl["neq"]))
            if res["redundancy"] != red:
                V("redundancy", "%s|%s|%s" % (cls, mode, a),
                  "algorithm %s reports redundancy %s, equations - parameters + defect = %d - %d + %d"
                  % (a, res["redundancy"], cl["neq"], npar, cl["defect"]))
    # ---- clause A: adjusted coordinates = generating coordinates
    ref_corr = wls_reference(sp, recs, vals, cl) if mode == "noisy" else None
    for a in okalgs:
        res = results[a][2]
        worst = 0.0
        wdesc = ""
        missing = [pid for pid in ids if pid not in res["points"] and any(pid in R.obs_points(o) for o, _ in recs)]
        if missing:
            V("points-missing", "%s|%s" % (cls, mode), "algorithm %s: points %s not in the results" % (a, missing))
            continue
        exact = (cls == "determined") or mode in ("true", "omit")
        if mode == "noisy":
            for (pid, k), ref in ref_corr.items():
                got = res["points"][pid].get("d" + "neu"[k])
                if got is None:
                    worst, wdesc = 1e9, "%s d%s missing" % (pid, "neu"[k])
                elif abs(got - ref * 1e3) > worst:
                    worst, wdesc = abs(got - ref * 1e3), "%s d%s = %s mm, own weighted least squares %.4f mm" % (pid, "neu"[k], got, ref * 1e3)
            if worst > TOL_DNEU:
                V("adjusted", "%s|%s|%s" % (cls, mode, a), "algorithm %s: %s" % (a, wdesc))
        elif exact:
            for pid in res["points"]:
                xyz = adjusted_xyz(res["points"][pid])
                if xyz is None:
                    worst, wdesc = 1e9, "%s has no coordinates in the results" % pid
                    continue
                for i in range(3):
                    d = abs(xyz[i] - X[pid][i])
                    if d > worst:
                        worst, wdesc = d, "%s %s-adjusted %.9f generating %s (diff %.3e m)" % (pid, "xyz"[i], xyz[i], T[pid][i], xyz[i] - X[pid][i])
            if worst > tol_xyz:
                V("adjusted", "%s|%s|%s" % (cls, mode, a), "algorithm %s: %s" % (a, wdesc))
        else:
            # defect resolved by the constrained parameters, displaced approximate coordinates:
            # (1) the adjusted coordinates reproduce every observation, (2) the correction
            # is orthogonal to the null space over the constrained parameters (minimum norm)
            Xa = {}
            for pid in ids:
                p = res["points"].get(pid)
                Xa[pid] = (adjusted_xyz(p) if p else None) or X[pid]
            for (o, rows), v in zip(recs, vals):
                d = R.obs_diff(o, R.obs_value(o, Xa, G.GEOID), R.obs_value(o, X, G.GEOID))
                for di in d:
                    dm = abs(di) * (norm_sight(o, X) if o[0] in R.ANGULAR else 1.0)
                    if dm > worst:
                        worst, wdesc = dm, "observation %s is not reproduced by the adjusted coordinates (%.3e m)" % (" ".join(o), dm)
            if worst > tol_xyz:
                V("adjusted", "%s|%s|%s" % (cls, mode, a), "algorithm %s: %s" % (a, wdesc))
            else:
                # gama's dn, de, du refer to the local frame at the approximate position, the reference null
                # space to the frame at the generating one: next to a pole a displacement of a metre turns
                # north and east by 1e-4 rad - express the corrections in the frame of the reference first
                fa = G.frames_of({pid: tuple(float(c) for c in approx[pid]) for pid in ids if approx.get(pid)})
                xs = []
                for (pid, k) in cl["cols"]:
                    p_ = res["points"][pid]
                    v = (0.0, 0.0, 0.0)
                    for kk in range(3):
                        v = R.add(v, R.mul(fa[pid][kk], p_.get("d" + "neu"[kk], 0.0)))
                    xs.append(R.dot(fr[pid][k], v))
                for b in cl["basis"]:
                    s = sum(b[i] * xs[i] for i in cl["S"])
                    if abs(s) > 5 * TOL_DNEU:
                        V("min-norm", "%s|%s|%s" % (cls, mode, a), "algorithm %s: corrections of the constrained parameters are not orthogonal to the null space (%.4f mm)" % (a, s))
                        break
        if mode != "noisy":       # residuals of consistent observations vanish
            for (t, oid, rs, ind) in res["obs"]:
                if any(abs(r) > TOL_RES for r in rs):
                    V("residual", "%s|%s|%s" % (cls, mode, a), "algorithm %s: residuals %s m of %s %s for consistent observations" % (a, rs, t, oid))
                    break
    # ---- clause X: the algorithms agree
    for a in okalgs[1:]:
        ra = results[a][2]
        diffs = []
        for key in ("parameters", "equations", "defect", "redundancy"):
            if ra[key] != r0[key]:
                diffs.append("%s %s/%s" % (key, r0[key], ra[key]))
        for pid in r0["points"]:
            p0, pa = r0["points"][pid], ra["points"].get(pid)
            if pa is None:
                diffs.append("point %s missing" % pid)
                continue
            for c in ("dn", "de", "du"):
                if (c in p0) != (c in pa) or (c in p0 and abs(p0[c] - pa[c]) > TOL_DNEU):
                    diffs.append("%s %s %s/%s mm" % (pid, c, p0.get(c), pa.get(c)))
            x0, xa = adjusted_xyz(p0), adjusted_xyz(pa)
            if x0 and xa and max(abs(u - v) for u, v in zip(x0, xa)) > TOL_XYZ:
                diffs.append("%s xyz %s/%s" % (pid, x0, xa))
        for (o0, oa) in zip(r0["obs"], ra["obs"]):
            if o0[:2] != oa[:2] or len(o0[2]) != len(oa[2]) or any(abs(u - v) > TOL_RES for u, v in zip(o0[2], oa[2])):
                diffs.append("residuals %s %s/%s" % (o0[:2], o0[2], oa[2]))
        if diffs:
            V("algorithms-differ", "%s|%s|%s-vs-%s" % (cls, mode, a0, a), "; ".join(diffs[:6]))
    # ---- clause R: replay of the project equations through DataParser + Adj
    if okalgs:
        if len(set(dumps[a] for a in okalgs)) != 1:
            V("dump-differs", "%s|%s" % (cls, mode), "the --project-equations dumps of %s are not identical" % (okalgs,))
        if not dumps[a0] or pe0 is None:
            V("dump-missing", "%s|%s" % (cls, mode), "no usable --project-equations file was written")
        else:
            rep = run_replay(base + "." + a0 + ".pe")
            Cn("adj_replays", 4)
            if rep.get("error"):
                V("replay-read", "%s|%s" % (cls, mode), "DataParser/Adj could not use the dump: %s" % rep["error"])
            else:
                if rep["P"] and (rep["P"][0] != r0["equations"] or rep["P"][1] != r0["parameters"] or rep["P"][2] != len(cl["S"])):
                    V("replay-dimensions", "%s|%s" % (cls, mode),
                      "dump read back as rows %s cols %s minx %s; g3 reports equations %s parameters %s; constrained parameters %d"
                      % (rep["P"][0], rep["P"][1], rep["P"][2], r0["equations"], r0["parameters"], len(cl["S"])))
                for a in okalgs:
                    ra = results[a][2]
                    h = rep["algs"].get(a)
                    if not h or not h["ok"]:
                        V("replay-fails", "%s|%s|%s" % (cls, mode, a), "Adj(%s) on the dump: %s" % (a, h and h.get("exc")))
                        continue
                    diffs = []
                    if h["defect"] != ra["defect"]:
                        diffs.append("defect %s/%s" % (ra["defect"], h["defect"]))
                    for ci, (pid, k) in sorted(col_index(ra).items()):
                        got = ra["points"][pid]["d" + "neu"[k]]
                        hv = h["x"][ci - 1] if ci - 1 < len(h["x"]) else None
                        if hv is None or abs(hv - got) > 0.00051 + 1e-9 * abs(got):
                            diffs.append("x(%d)=%s but %s d%s=%s mm" % (ci, hv, pid, "neu"[k], got))
                    for (t, oid, rs, ind) in ra["obs"]:
                        for j, r in enumerate(rs):
                            if ind is not None and ind - 1 + j < len(h["r"]) and abs(h["r"][ind - 1 + j] / 1e3 - r) > 0.51e-5 + 1e-9 * abs(r):
                                diffs.append("r(%d)=%s mm but printed residual %s m" % (ind + j, h["r"][ind - 1 + j], r))
                    if diffs:
                        V("replay-differs", "%s|%s|%s" % (cls, mode, a), "; ".join(diffs[:6]))
                hx = [(a, rep["algs"][a]["x"]) for a in ALGS if rep["algs"].get(a, {}).get("ok")]
                for a, xv in hx[1:]:
                    if len(xv) != len(hx[0][1]) or any(abs(u - v) > 1e-5 * max(1.0, abs(u)) for u, v in zip(xv, hx[0][1])):
                        V("replay-algorithms-differ", "%s|%s|%s-vs-%s" % (cls, mode, hx[0][0], a), "Adj on the dump: x differs between algorithms %s and %s" % (hx[0][0], a))
                        break
        nz = max([abs(r0["points"][p].get(c, 0.0)) for p in r0["points"] for c in ("dn", "de", "du")] + [0.0])
        out["outcomes"].append("%s:defect%d:redundancy%d:%s:corrections-%s" % (cls, cl["defect"], red, mode, "nonzero" if nz > 0.005 else "zero"))
        for w in sorted(wraps):
            out["outcomes"].append("angle-through-zero:" + w)
        if ndh:
            out["outcomes"].append("heights:%s" % ("all-records" if ndh == len(recs) else "some-records"))
        out["sample"] = "%s -> %s, parameters %d equations %d defect %d redundancy %d, max |dn,de,du| %.3f mm" % (cs, cls, npar, cl["neq"], cl["defect"], red, nz)
    if raw:
        br = bad_rows(sp, recs, vals, rp, results[okalgs[0]][2], pe0, approx) if okalgs else "n/a"
        for clause, extra, detail in raw:
            out["viol"].append(("C19|%s|T=%s|br=%s|%s|%s" % (clause, tsig, br, cl["feat"], extra), "%s :: %s" % (cs, detail)))
    return out


def norm_sight(o, X):
    """length [m] that turns an angular discrepancy into metres"""
    ps = R.obs_points(o)
    return min(R.norm(R.sub(X[p], X[ps[0]])) for p in ps[1:])


def summarize(res):
    """comparable summary of a parsed result (for the order layer)"""
    s = {"stats": (res["parameters"], res["equations"], res["defect"], res["redundancy"]), "points": {}, "obs": {}}
    for pid, p in res["points"].items():
        s["points"][pid] = (p.get("dn"), p.get("de"), p.get("du"), adjusted_xyz(p), p.get("st_n"), p.get("st_e"), p.get("st_u"))
    for (t, oid, rs, ind) in res["obs"]:
        s["obs"].setdefault((t, oid), []).append(rs)
    return s


def evaluate_order(job):
    """job = (spec, list of (pp, rp)): every order of the <point> and <obs>
    records must give the result of the first (identity) order, per algorithm"""
    sp, orders = job
    cl = classify(sp)
    out = {"case": case_str(sp), "cls": cl["cls"], "viol": [], "outcomes": [], "counters": {}, "files": {}, "sample": None}
    if cl["cls"] not in ("determined", "resolved"):
        out["outcomes"].append("excluded:" + cl["cls"])
        return out
    base = os.path.join(CFG["tmp"], "o%d" % os.getpid())
    tsig = types_sig(sp)
    ref = {}
    nrun = 0
    varies = 0
    for od in orders:
        pp, rp = od[0], od[1]
        s2 = dict(sp, pp=pp, rp=rp)
        if len(od) > 2 and od[2] is not None: s2["grp"] = od[2]
        xml = build_input(s2)[0]
        with open(base + ".xml", "w") as f:
            f.write(xml)
        for a in (sp.get("algs") or ALGS):
            rc, err, text, pe = run_g3(base + ".xml", a, base + ".out", None)
            nrun += 1
            res = G.parse_results(text) if rc == 0 else None
            if res is None:
                out["viol"].append(("C19|exit|T=%s|br=n/a|%s|order|%s|%s" % (tsig, cl["feat"], sp["mode"], exit_kind(rc, err)),
                                    "%s algorithm %s: exit status %s %s" % (case_str(s2), a, rc, " ".join(err.split())[:160])))
                continue
            sm = summarize(res)
            if a not in ref:
                ref[a] = (sm, res["order"], case_str(s2))
                continue
            r0 = ref[a][0]
            diffs = []
            if sm["stats"] != r0["stats"]:
                diffs.append("statistics %s/%s" % (r0["stats"], sm["stats"]))
            for pid, v0 in r0["points"].items():
                v = sm["points"].get(pid)
                if v is None:
                    diffs.append("point %s missing" % pid)
                    continue
                for i in range(3):
                    if (v0[i] is None) != (v[i] is None) or (v0[i] is not None and abs(v0[i] - v[i]) > TOL_DNEU):
                        diffs.append("%s d%s %s/%s" % (pid, "neu"[i], v0[i], v[i]))
                if v0[3] and v[3] and max(abs(p - q) for p, q in zip(v0[3], v[3])) > TOL_XYZ:
                    diffs.append("%s xyz %s/%s" % (pid, v0[3], v[3]))
                if v0[4:] != v[4:]:
                    diffs.append("%s status %s/%s" % (pid, v0[4:], v[4:]))
            for key, l0 in r0["obs"].items():
                l1 = sm["obs"].get(key)
                if l1 is None or len(l1) != len(l0):
                    diffs.append("observation %s missing" % (key,))
                elif any(abs(p - q) > TOL_RES for u, v in zip(sorted(l0), sorted(l1)) for p, q in zip(u, v)):
                    diffs.append("residuals of %s %s/%s" % (key, l0, l1))
            if res["order"] != ref[a][1]:
                varies += 1
            if diffs:
                out["viol"].append(("C19|%s|T=%s|br=n/a|%s|%s|%s|%s" % ("grouping-dependent" if s2.get("grp") else "order-dependent", tsig, cl["feat"], cl["cls"], sp["mode"], a),
                                    "%s vs %s :: %s" % (ref[a][2], case_str(s2), "; ".join(diffs[:6]))))
    out["counters"]["g3_runs"] = nrun
    out["counters"]["orders"] = len(orders)
    out["outcomes"].append("order-layer:%s:%s" % (cl["cls"], "point-order-in-output-varies" if varies else "point-order-in-output-constant"))
    out["sample"] = "%s x %d orders of <point>/<obs> records x %d algorithms" % (case_str(sp), len(orders), len(sp.get("algs") or ALGS))
    return out
