"""n08_ref: exact reference model of the linearised network (C08, C20).

For a gnet.Net whose true = approximate coordinates are integers (lattice
points) every row of the Jacobian of every observation type becomes rational
after scaling the row by a positive factor (d, d^2, s, s^2*h ...), and row
scaling changes neither the rank nor the null space.  So

  * which unknowns exist        (free coordinates touched by an active
                                 observation, one orientation per direction
                                 set with >= 2 distinct active targets),
  * the defect                   n - rank(A),
  * a null-space basis N         (exact, fractions),
  * whether a set S of constrained coordinates resolves the defect
                                 (rank of the rows of N belonging to S == d)

are all decided in exact rational arithmetic -- no tolerance anywhere.

The activity rules mirror what gama documents/does for points without a
status: an observation needs every point it refers to (xy for horizontal
observations, z for heights, both for slope distances; a zenith angle needs
active heights only, the xy of an unused point act as constants).

Column keys: ('x',id) ('y',id) ('z',id) ('o',cluster_index).
"""
from fractions import Fraction as Fr


def _act_xy(p):
    return p.xy in ("fix", "adj", "con") and p.x is not None and p.y is not None


def _act_z(p):
    return p.zs in ("fix", "adj", "con") and p.z is not None


def _free_xy(p):
    return p.xy in ("adj", "con")


def _free_z(p):
    return p.zs in ("adj", "con")


def obs_active(net, o):
    P = net.pt
    k = o.kind
    try:
        if k in ("distance", "direction", "azimuth"):
            return _act_xy(P(o.frm)) and _act_xy(P(o.to))
        if k == "angle":
            return _act_xy(P(o.frm)) and _act_xy(P(o.bs)) and _act_xy(P(o.fs))
        if k == "s-distance":
            a, b = P(o.frm), P(o.to)
            return _act_xy(a) and _act_xy(b) and _act_z(a) and _act_z(b)
        if k == "z-angle":
            a, b = P(o.frm), P(o.to)
            return (a.x is not None and b.x is not None) and _act_z(a) and _act_z(b)
        if k == "dh":
            return _act_z(P(o.frm)) and _act_z(P(o.to))
        if k == "vec":
            # three rows, x/y need xy, z needs z: handled by the caller
            return True
    except KeyError:
        return False
    raise ValueError(k)


def active_rows(net):
    """list of (cluster_index, obs, component) of the active scalar
    observations in input order; component: None or 'x','y','z' (vec)."""
    out = []
    for ci, c in enumerate(net.clusters):
        if c.kind == "obs":
            dirs = set()
            for o in c.obs:
                if o.kind == "direction" and obs_active(net, o):
                    dirs.add(o.to)
            dir_ok = len(dirs) >= 2
            for o in c.obs:
                if not obs_active(net, o):
                    continue
                if o.kind == "direction" and not dir_ok:
                    continue
                out.append((ci, o, None))
        elif c.kind == "height-differences":
            for o in c.obs:
                if obs_active(net, o):
                    out.append((ci, o, None))
        elif c.kind == "vectors":
            for o in c.obs:
                a, b = net.pt(o.frm), net.pt(o.to)
                if _act_xy(a) and _act_xy(b):
                    out.append((ci, o, "x")); out.append((ci, o, "y"))
                if _act_z(a) and _act_z(b):
                    out.append((ci, o, "z"))
        else:
            raise ValueError(c.kind)
    return out


def _add(row, key, v):
    if v != 0:
        row[key] = row.get(key, 0) + v


def exact_row(net, ci, o, comp):
    """row of the Jacobian scaled by a positive factor: dict key -> Fraction"""
    P = net.pt
    row = {}
    k = o.kind

    def xy(p, cx, cy):
        if _free_xy(p):
            _add(row, ("x", p.id), Fr(cx)); _add(row, ("y", p.id), Fr(cy))

    def zz(p, cz):
        if _free_z(p):
            _add(row, ("z", p.id), Fr(cz))

    def bearing_part(a, b, f):
        # d(bearing a->b) * f ; bearing = atan2(dy, dx)
        dx, dy = b.x - a.x, b.y - a.y
        d2 = dx * dx + dy * dy
        xy(b, Fr(-dy, d2) * f, Fr(dx, d2) * f)
        xy(a, Fr(dy, d2) * f, Fr(-dx, d2) * f)

    if k == "distance":
        a, b = P(o.frm), P(o.to)
        dx, dy = b.x - a.x, b.y - a.y
        xy(a, -dx, -dy); xy(b, dx, dy)
    elif k in ("direction", "azimuth"):
        a, b = P(o.frm), P(o.to)
        bearing_part(a, b, 1)
        if k == "direction":
            row[("o", ci)] = Fr(-1)
    elif k == "angle":
        a = P(o.frm)
        bearing_part(a, P(o.fs), 1)
        bearing_part(a, P(o.bs), -1)
    elif k == "s-distance":
        a, b = P(o.frm), P(o.to)
        dx, dy, dz = b.x - a.x, b.y - a.y, b.z - a.z
        xy(a, -dx, -dy); xy(b, dx, dy); zz(a, -dz); zz(b, dz)
    elif k == "z-angle":
        a, b = P(o.frm), P(o.to)
        dx, dy, dz = b.x - a.x, b.y - a.y, b.z - a.z
        h2 = dx * dx + dy * dy
        xy(b, dz * dx, dz * dy); xy(a, -dz * dx, -dz * dy)
        zz(b, -h2); zz(a, h2)
    elif k == "dh":
        zz(P(o.frm), -1); zz(P(o.to), 1)
    elif k == "vec":
        a, b = P(o.frm), P(o.to)
        if comp == "x":
            if _free_xy(a): _add(row, ("x", a.id), Fr(-1))
            if _free_xy(b): _add(row, ("x", b.id), Fr(1))
        elif comp == "y":
            if _free_xy(a): _add(row, ("y", a.id), Fr(-1))
            if _free_xy(b): _add(row, ("y", b.id), Fr(1))
        else:
            zz(a, -1); zz(b, 1)
    else:
        raise ValueError(k)
    return row


def touched_keys(net, ci, o, comp):
    """unknowns that gama gives an index for this observation (independent of
    the coefficient being zero)"""
    P = net.pt
    k = o.kind
    keys = []

    def xy(p):
        if _free_xy(p): keys.extend([("x", p.id), ("y", p.id)])

    def zz(p):
        if _free_z(p): keys.append(("z", p.id))

    if k in ("distance", "direction", "azimuth"):
        if k == "direction": keys.append(("o", ci))
        xy(P(o.frm)); xy(P(o.to))
    elif k == "angle":
        xy(P(o.frm)); xy(P(o.bs)); xy(P(o.fs))
    elif k in ("s-distance", "z-angle"):
        a, b = P(o.frm), P(o.to)
        xy(a); zz(a); xy(b); zz(b)
    elif k == "dh":
        zz(P(o.frm)); zz(P(o.to))
    elif k == "vec":
        a, b = P(o.frm), P(o.to)
        if comp == "x":
            if _free_xy(a): keys.append(("x", a.id))
            if _free_xy(b): keys.append(("x", b.id))
        elif comp == "y":
            if _free_xy(a): keys.append(("y", a.id))
            if _free_xy(b): keys.append(("y", b.id))
        else:
            zz(a); zz(b)
    return keys


def rref(rows, ncols):
    """reduced row echelon form of a list of dense Fraction rows.
    returns (pivot_columns, reduced_rows)"""
    M = [list(r) for r in rows]
    piv = []
    r = 0
    for c in range(ncols):
        p = None
        for i in range(r, len(M)):
            if M[i][c] != 0:
                p = i; break
        if p is None:
            continue
        M[r], M[p] = M[p], M[r]
        pv = M[r][c]
        M[r] = [v / pv for v in M[r]]
        for i in range(len(M)):
            if i != r and M[i][c] != 0:
                f = M[i][c]
                Mr = M[r]
                M[i] = [a - f * b for a, b in zip(M[i], Mr)]
        piv.append(c)
        r += 1
        if r == len(M):
            break
    return piv, M[:r]


def rank(rows, ncols):
    return len(rref(rows, ncols)[0]) if rows else 0


def nullspace(rows, ncols):
    """exact basis of {v : rows v = 0} as list of Fraction vectors"""
    piv, R = rref(rows, ncols) if rows else ([], [])
    free = [c for c in range(ncols) if c not in piv]
    basis = []
    for f in free:
        v = [Fr(0)] * ncols
        v[f] = Fr(1)
        for i, pc in enumerate(piv):
            v[pc] = -R[i][f]
        basis.append(v)
    return basis


class Model:
    """exact linear model of a net (statuses as they stand)"""

    def __init__(self, net):
        self.net = net
        self.rows_src = active_rows(net)
        self.cols = []          # keys in gama's order of first appearance
        seen = set()
        sparse = []
        for (ci, o, comp) in self.rows_src:
            for key in touched_keys(net, ci, o, comp):
                if key not in seen:
                    seen.add(key); self.cols.append(key)
            sparse.append(exact_row(net, ci, o, comp))
        self.index = {k: i for i, k in enumerate(self.cols)}
        n = len(self.cols)
        self.n = n
        self.m = len(sparse)
        self.A = []
        for r in sparse:
            v = [Fr(0)] * n
            for k, c in r.items():
                v[self.index[k]] = c
            self.A.append(v)
        self.N = nullspace(self.A, n)       # list of d vectors
        self.d = len(self.N)
        # constrained coordinates that are unknowns
        self.S = []
        for p in net.points:
            if p.xy == "con":
                for t in ("x", "y"):
                    if (t, p.id) in self.index: self.S.append(self.index[(t, p.id)])
            if p.zs == "con" and ("z", p.id) in self.index:
                self.S.append(self.index[("z", p.id)])
        NS = [[v[i] for i in self.S] for v in self.N]
        self.rank_NS = rank(NS, len(self.S)) if (NS and self.S) else 0
        # free coordinates without any determining observation (no unknown)
        self.untouched = []
        for p in net.points:
            if _free_xy(p) and ("x", p.id) not in self.index: self.untouched.append(("xy", p.id))
            if _free_z(p) and ("z", p.id) not in self.index: self.untouched.append(("z", p.id))

    def kind(self):
        if self.n == 0: return "no-unknowns"
        if self.d == 0: return "regular"
        if self.rank_NS == self.d: return "sufficient"
        if len(self.S) < self.d: return "insufficient"
        return "non-spanning"

    def determined(self):
        return self.n > 0 and self.rank_NS == self.d

    def undetermined_keys(self):
        """unknowns that move under a null vector which the constraints leave
        free, i.e. keys with a non-zero component in some vector of
        {N c : (N c)|S = 0}."""
        if self.d == 0: return set()
        # coefficient vectors c with N_S' c = 0
        rows = [[v[i] for v in self.N] for i in self.S]      # |S| x d
        C = nullspace(rows, self.d) if rows else [[Fr(1) if i == j else Fr(0) for i in range(self.d)] for j in range(self.d)]
        out = set()
        for c in C:
            for j in range(self.n):
                s = sum(c[k] * self.N[k][j] for k in range(self.d))
                if s != 0: out.add(self.cols[j])
        return out

    def moving_keys(self):
        """unknowns with a non-zero component in the null space of A"""
        return {self.cols[j] for j in range(self.n) if any(v[j] != 0 for v in self.N)}

    def columns_independent_without(self, keys):
        """rank of A with the given columns removed == number of remaining columns"""
        drop = {self.index[k] for k in keys}
        keep = [j for j in range(self.n) if j not in drop]
        B = [[r[j] for j in keep] for r in self.A]
        return rank(B, len(keep)) == len(keep)


def generators(net, model, which):
    """datum generators as vectors over model.cols (Fractions); which: subset of
    tx ty tz rz rx ry sc.  Orientation components: rz -> +1 on every
    orientation (bearing grows with the rotation)."""
    G = {}
    P = {p.id: p for p in net.points}
    for g in which:
        v = [Fr(0)] * model.n
        for j, (t, pid) in enumerate(model.cols):
            if t == "o":
                if g == "rz": v[j] = Fr(1)
                continue
            p = P[pid]
            x, y, z = p.x or 0, p.y or 0, p.z or 0
            val = 0
            if g == "tx": val = 1 if t == "x" else 0
            elif g == "ty": val = 1 if t == "y" else 0
            elif g == "tz": val = 1 if t == "z" else 0
            elif g == "rz": val = {"x": -y, "y": x, "z": 0}[t]
            elif g == "rx": val = {"x": 0, "y": -z, "z": y}[t]
            elif g == "ry": val = {"x": z, "y": 0, "z": -x}[t]
            elif g == "sc": val = {"x": x, "y": y, "z": z}[t]
            v[j] = Fr(val)
        G[g] = v
    return G


def in_nullspace(model, v):
    return all(sum(a * b for a, b in zip(r, v)) == 0 for r in model.A)
