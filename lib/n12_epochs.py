"""n12_epochs: epoch pairs for the gama-local-deformation clause of check C12.

A *family* is (dimension type, identifier set, number of variable points).
Every epoch of a family is one assignment of a status to each variable point

      'n'  x,y adjusted          (3-D networks: z of the point is fixed)
      'z'  z adjusted            (3-D networks: x,y of the point are fixed)
      'a'  x,y,z adjusted        (3-D networks only)
      'f'  present and fixed
      '-'  absent from the epoch

on top of a frame of fixed anchor points that is the same in all epochs, so
that every assignment with at least one adjusted coordinate is an adjustable
network (over-determined, well conditioned).  `epochs(fam)` is the COMPLETE
product of the status alphabet of the dimension type over the points, minus
the assignments without any unknown; the check runs the tool on ALL ORDERED
pairs of them (both orders of two epochs and every epoch with itself are thus
included).

dimension types   '2'  plane network (distances),         alphabet n f -
                  '1'  levelling (height differences),    alphabet z f -
                  '3'  space network (slope distances +
                       height differences),               alphabet n z a f -
identifier sets   'same'  K1 K2 K3 K4       order of the adjustment XML (PointID: numeric
                                            ids by value first) == byte order of the strings
                                            (the std::map of the deformation tool)
                  'rev'   9 80 700 6000     XML order is the exact reverse of the tool's
                  'mixed' 9 10 A2 b         XML 9 10 A2 b, tool 10 9 A2 b
Observed values are consistent with true coordinates that move by a few mm
from epoch to epoch, plus a deterministic noise pattern that depends on the
epoch, so every epoch has its own adjusted coordinates and its own
(a posteriori scaled) covariance matrix.
"""
import itertools
import gnet
from gnet import Pt, Obs, Cluster, Net

ALPHABET = {"2": "nf-", "1": "zf-", "3": "nzaf-"}
IDSETS = {"same": ["K1", "K2", "K3", "K4"], "rev": ["9", "80", "700", "6000"], "mixed": ["9", "10", "A2", "b"]}

ANCHORS = [("F1", 0.0, 0.0, 10.0), ("F2", 120.0, 10.0, 45.0), ("F3", 20.0, 130.0, 80.0), ("F4", 130.0, 120.0, 0.0)]
VARPTS = [(40.0, 50.0, 30.0), (85.0, 35.0, 55.0), (60.0, 95.0, 20.0), (100.0, 80.0, 65.0)]
PAT = [0.8, -0.6, 0.3, -1.1, 0.9, -0.2, 0.5, -0.7, 1.2, -0.4, 0.1, -0.9, 0.6]


def families(tier):
    """list of (dim, idset, npoints)"""
    if tier == "quick":
        return [(d, s, 3) for d in "21" for s in ("same", "rev")] + [("3", "rev", 3)]
    return ([(d, s, 3) for d in "213" for s in ("same", "rev", "mixed")] +
            [(d, s, 4) for d in "21" for s in ("same", "rev", "mixed")] +
            [("3", "rev", 4)])


def famkey(fam):
    return "%s:%s:%d" % fam


def epochs(fam):
    """complete list of status strings of the family that have an unknown"""
    dim, idset, n = fam
    return ["".join(t) for t in itertools.product(ALPHABET[dim], repeat=n) if any(c in "nza" for c in t)]


def all_assignments(fam):
    dim, idset, n = fam
    return ["".join(t) for t in itertools.product(ALPHABET[dim], repeat=n)]


def _seed(fam, st):
    """number of the assignment in the complete product (noise / movement selector)"""
    dim, idset, n = fam
    al = ALPHABET[dim]; k = 0
    for c in st: k = k * len(al) + al.index(c)
    return k


def net(fam, st):
    dim, idset, n = fam
    ids = IDSETS[idset][:n]
    e = _seed(fam, st)
    pts = []
    nanch = {"2": 3, "1": 2, "3": 4}[dim]
    for (a, x, y, z) in ANCHORS[:nanch]:
        if dim == "2": pts.append(Pt(a, x, y, None, xy="fix"))
        elif dim == "1": pts.append(Pt(a, None, None, z, zs="fix"))
        else: pts.append(Pt(a, x, y, z, xy="fix", zs="fix"))
    present = []
    for k, (pid, s) in enumerate(zip(ids, st)):
        if s == "-": continue
        x, y, z = VARPTS[k]
        mv = [((e * 5 + k * 7 + c * 3) % 13 - 6) * 0.001 for c in range(3)]      # movement of the epoch, mm
        x += mv[0]; y += mv[1]; z += mv[2]
        sxy = {"n": "adj", "a": "adj", "z": "fix", "f": "fix"}[s]
        sz = {"n": "fix", "a": "adj", "z": "adj", "f": "fix"}[s]
        if dim == "2": pts.append(Pt(pid, x, y, None, xy=sxy))
        elif dim == "1": pts.append(Pt(pid, None, None, z, zs=sz))
        else: pts.append(Pt(pid, x, y, z, xy=sxy, zs=sz))
        present.append((pid, s))
    anch = [a[0] for a in ANCHORS[:nanch]]
    cl = []
    kind = {"2": "distance", "3": "s-distance"}.get(dim)
    if dim in "23":
        for a in anch:
            ob = [Obs(kind, a, p, stdev=5.0) for (p, s) in present if s != "f"]
            if ob: cl.append(Cluster("obs", ob, frm=a))
        for i, (p, s) in enumerate(present):
            ob = [Obs(kind, p, q, stdev=4.0) for (q, t) in present[i + 1:] if not (s == "f" and t == "f")]
            if ob: cl.append(Cluster("obs", ob, frm=p))
    if dim in "13":
        hd = []
        for a in anch[:2]:
            hd += [Obs("dh", a, p, stdev=3.0) for (p, s) in present if s in "za"]
        for i, (p, s) in enumerate(present):
            hd += [Obs("dh", p, q, stdev=2.0) for (q, t) in present[i + 1:] if (s in "za" or t in "za")]
        if hd: cl.append(Cluster("height-differences", hd))
    nt = Net(pts, cl, **{"sigma-apr": 10, "conf-pr": 0.95, "tol-abs": 1000, "sigma-act": "aposteriori"})
    nt.attrs["axes-xy"] = "ne"; nt.attrs["angles"] = "left-handed"
    nt.description = "C12 epochs %s %s" % (famkey(fam), st)
    j = 0
    for c in nt.clusters:
        for o in c.obs:
            o.err = PAT[(j * 3 + e) % 13] * o.stdev * 1e-3; j += 1
    gnet.fill_values(nt)
    return nt


def gkf(fam, st):
    return gnet.to_gkf(net(fam, st))


def expected_adjusted(fam, st):
    """{id: (has adjusted xy, has adjusted z)} the adjustment XML must list"""
    dim, idset, n = fam
    out = {}
    for pid, s in zip(IDSETS[idset][:n], st):
        if s in "nza": out[pid] = (1 if s in "na" else 0, 1 if s in "za" else 0)
    return out


def pairclass(fam, s1, s2):
    """structural class of an ordered epoch pair (evidence / signatures)"""
    only1 = any(a in "za" and b not in "za" for a, b in zip(s1, s2)) or any(a in "na" and b not in "na" for a, b in zip(s1, s2))
    only2 = any(b in "za" and a not in "za" for a, b in zip(s1, s2)) or any(b in "na" and a not in "na" for a, b in zip(s1, s2))
    if s1 == s2: return "same-status"
    if only1 and only2: return "coordinates-only-in-1-and-only-in-2"
    if only1: return "coordinates-only-in-1"
    if only2: return "coordinates-only-in-2"
    return "same-coordinates"          # e.g. fixed <-> absent
