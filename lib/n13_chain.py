"""n13_chain: one export/adjust chain of check C13 on the real gama-local
executable (pool worker, top-level function `chain`)."""
import hashlib, os, re, subprocess
import gnet
import n13_model as M

ROUNDS = 3
_FAM = {}
IT_TEXT = "Number of linearization iterations"


def _family(geom=0):
    if geom not in _FAM:
        _FAM[geom] = {m.name: m for m in M.family(geom=geom)}
    return _FAM[geom]


def _run(exe, inp, args, timeout=30):
    try:
        p = subprocess.run([exe, inp] + args, stdout=subprocess.PIPE, stderr=subprocess.PIPE, timeout=timeout)
        return p.returncode, p.stdout.decode("utf8", "replace"), p.stderr.decode("utf8", "replace")
    except subprocess.TimeoutExpired:
        return -999, "", "timeout"
    except OSError as e:
        return -998, "", "cannot execute: %s" % e


def _read(path):
    try:
        with open(path, "rb") as f: return f.read().decode("utf8", "replace")
    except OSError:
        return None


def _iters(xml_text, txt):
    m = re.search(r"<linearization-iterations>\s*(\d+)\s*<", xml_text or "")
    ix = int(m.group(1)) if m else None
    m = re.search(re.escape(IT_TEXT) + r":?\s*(\d+)", txt or "")
    it = int(m.group(1)) if m else 0
    return ix, it


def cmp_results(R0, R, tc=1e-6, rel=1e-5):
    """differences of two adjustment results [(component, detail)]"""
    out = []

    def close(a, b, ab, rl=0.0):
        if a is None or b is None: return a is None and b is None
        if isinstance(a, str) or isinstance(b, str): return a == b
        return abs(a - b) <= ab + rl * max(abs(a), abs(b))
    if (R0.dof, R0.defect, R0.equations, R0.unknowns) != (R.dof, R.defect, R.equations, R.unknowns):
        out.append(("dof", "equations/unknowns/dof/defect %s -> %s" % ((R0.equations, R0.unknowns, R0.dof, R0.defect), (R.equations, R.unknowns, R.dof, R.defect))))
    if not close(R0.pvv, R.pvv, 1e-9, rel): out.append(("pvv", "%r -> %r" % (R0.pvv, R.pvv)))
    for k in ("apriori", "aposteriori"):
        if not close(R0.sd.get(k), R.sd.get(k), 1e-9, rel): out.append(("m0-" + k, "%r -> %r" % (R0.sd.get(k), R.sd.get(k))))
    if R0.sd.get("used") != R.sd.get("used"): out.append(("m0-used", "%r -> %r" % (R0.sd.get("used"), R.sd.get("used"))))
    if not close(R0.sd.get("probability"), R.sd.get("probability"), 1e-9): out.append(("conf-pr", "%r -> %r" % (R0.sd.get("probability"), R.sd.get("probability"))))
    if R0.counts != R.counts: out.append(("point-counts", "%s -> %s" % (R0.counts, R.counts)))
    if R0.obs_summary != R.obs_summary: out.append(("obs-counts", "%s -> %s" % (R0.obs_summary, R.obs_summary)))
    for nm, a, b in (("fixed", R0.fixed, R.fixed), ("adjusted", R0.adjusted, R.adjusted)):
        if set(a) != set(b):
            out.append((nm + "-points", "%s -> %s" % (sorted(a), sorted(b)))); continue
        for pid in a:
            if set(a[pid]) != set(b[pid]):
                out.append((nm + "-status", "%s: %s -> %s" % (pid, sorted(a[pid]), sorted(b[pid])))); continue
            for c, v in a[pid].items():
                if c != "id" and not close(v, b[pid][c], tc):
                    out.append((nm + "-" + c.lower(), "%s: %r -> %r" % (pid, v, b[pid][c])))
    if (R0.cov_dim, R0.cov_band) != (R.cov_dim, R.cov_band):
        out.append(("cov-shape", "%s -> %s" % ((R0.cov_dim, R0.cov_band), (R.cov_dim, R.cov_band))))
    elif R0.orig_index == R.orig_index:
        sc = max([abs(x) for x in R0.cov_flt] or [1.0])
        bad = [(i, x, y) for i, (x, y) in enumerate(zip(R0.cov_flt, R.cov_flt)) if abs(x - y) > rel * max(abs(x), abs(y)) + 1e-6 * sc]
        if bad: out.append(("cov-xx", "element %d: %r -> %r" % bad[0]))
    else:
        out.append(("unknown-order", "%s -> %s" % (R0.orig_index, R.orig_index)))
    if len(R0.obs) != len(R.obs):
        out.append(("obs-list", "%d -> %d observations" % (len(R0.obs), len(R.obs))))
    else:
        for a, b in zip(R0.obs, R.obs):
            ka = (a["tag"], a.get("from"), a.get("to"), a.get("left"), a.get("right"), a.get("id"))
            kb = (b["tag"], b.get("from"), b.get("to"), b.get("left"), b.get("right"), b.get("id"))
            if ka != kb:
                out.append(("obs-list", "%s -> %s" % (ka, kb))); break
            if (a.get("extern") or "") != (b.get("extern") or ""):
                out.append(("obs-extern." + a["tag"], "%s: %r -> %r" % (ka, a.get("extern"), b.get("extern"))))
            ang = a["tag"] in ("direction", "angle", "azimuth", "zenith-angle")
            for f, ab in (("obs", tc), ("adj", tc), ("stdev", 1e-6), ("f", 2e-3), ("std-residual", 2e-3)):
                x, y = a.get(f), b.get(f)
                if isinstance(x, float) and isinstance(y, float):
                    d = abs(x - y)
                    if ang and f in ("obs", "adj"): d = min(d, abs(400.0 - d))
                    if d > ab + rel * abs(x):
                        out.append(("obs-%s.%s" % (f, a["tag"]), "%s: %r -> %r" % (ka, x, y)))
                elif x != y:
                    out.append(("obs-%s.%s" % (f, a["tag"]), "%s: %r -> %r" % (ka, x, y)))
    return out


def chain(job):
    """job: dict(i, member, axes, angles, alg, approx, exe, tmp[, f0]) -> result dict"""
    fam = _family(job.get("geom", 0))
    mem = fam[job["member"]]
    exe = job["exe"]
    base = os.path.join(job["tmp"], "c%d" % job["i"])
    f0 = job.get("f0") or M.realise(mem, job["axes"], job["angles"], job["approx"])
    fclass = "cons" if M.consistent(job["axes"], job["angles"]) else "incons"
    alg = job["alg"]
    aargs = [] if mem.name == "par.algorithm" else ["--algorithm", alg]
    eff_alg = None if mem.name == "par.algorithm" else alg
    aargs = aargs + list(mem.run_args)
    res = {"job": {k: v for k, v in job.items() if k not in ("f0",)}, "diffs": [], "hashes": [], "runs": 0, "evals": 0,
           "files": {"F0.gkf": f0}, "outcome": "", "sample": None}
    diffs = res["diffs"]
    tag = "%s|%s" % (mem.name, fclass)
    where = "g%d %s %s/%s %s %s" % (job.get("geom", 0), mem.name, job["axes"], job["angles"], alg, job["approx"])

    roots = []          # components in which export 1 differs from the input (root causes of later differences)

    def V(clause, comp, detail, k, after=False):
        # extern has no numeric effect: it explains lost extern values of the results and nothing else
        rr = [r for r in roots if r.endswith(".extern") == comp.startswith("obs-extern.")]
        a = ("after:" + "+".join(rr)) if (after and rr) else "-"
        diffs.append(("C13|%s|%s|%s|%s" % (clause, comp, tag, a), "round %d: %s" % (k, detail)))

    F = [f0]; X = []; IT = []; D = []; unread = False
    path = lambda k, ext: "%s-%d.%s" % (base, k, ext)
    with open(path(0, "gkf"), "w") as f: f.write(f0)
    tmpfiles = [path(0, "gkf")]
    try:
        try:
            D.append(M.read_input(f0))
        except ValueError as e:
            V("harness", "own-input-unreadable", str(e), 0); return _fin(res, "harness-error")
        for k in range(ROUNDS + 1):
            # --- adjust state k
            xp, tp = path(k, "xml"), path(k, "txt"); tmpfiles += [xp, tp]
            rc, so, se = _run(exe, path(k, "gkf"), aargs + ["--xml", xp, "--text", tp]); res["runs"] += 1
            xml = _read(xp); txt = _read(tp)
            R = gnet.parse_result(xml) if xml else None
            res["evals"] += 1
            if rc == 0 and R is not None and getattr(R, "wellformed", True) is False:
                # adjustment XML not well-formed (unescaped identifiers: D5, property C12): the results of this
                # state cannot be read; the file-level clauses are still evaluated
                X.append(None); IT.append((None, _iters("", txt)[1])); unread = True
            elif rc != 0 or R is None or R.error:
                why = ("rc=%s %s" % (rc, (R.error if R is not None else (se or so)[:200])))
                if k == 0:
                    V("harness", "input-not-adjusted", why, 0); return _fin(res, "F0-not-adjusted")
                V("export-not-accepted", "adjust", why, k)
                res["files"]["F%d.gkf" % k] = F[k]
                return _fin(res, "export%d-rejected" % k)
            else:
                X.append(R); IT.append(_iters(xml, txt))
            ix, it = IT[-1]
            if ix is not None and ix != it:
                V("iteration-report", "xml-vs-text", "xml says %s, text says %s" % (ix, it), k)
            if k >= 1 and X[0] is not None and X[k] is not None:
                if (ix or 0) != 0 or it != 0 or "Test of linearization error" in (txt or ""):
                    V("needs-iteration", "iterations=%s" % min(max(ix or 0, it), 3), "re-adjusting export %d needs %s linearisation iteration(s)%s (original run: %s)"
                      % (k, max(ix or 0, it), " and still fails the linearisation test" if "Test of linearization error" in (txt or "") else "", IT[0]), k, after=True)
                for (comp, det) in cmp_results(X[0], R):
                    V("readjust-differs", comp, det, k, after=True)
            if k == ROUNDS: break
            # --- export state k+1
            ep = path(k + 1, "gkf"); tmpfiles += [ep, path(k, "t2")]
            rc, so, se = _run(exe, path(k, "gkf"), aargs + ["--text", path(k, "t2"), "--export", ep]); res["runs"] += 1
            e = _read(ep)
            res["evals"] += 1
            if rc != 0 or not e:
                V("export-not-written", "rc=%s" % rc, (se or so)[:200], k + 1); return _fin(res, "export%d-not-written" % (k + 1))
            F.append(e)
            try:
                D.append(M.read_input(e))
            except ValueError as ex:
                V("export-not-accepted", "not-well-formed", str(ex), k + 1)
                res["files"]["F%d.gkf" % (k + 1)] = e
                return _fin(res, "export%d-not-wellformed" % (k + 1))
            vt = None
            if D[k + 1]["params"]["angular"] == "360":
                vt = {a: 2e-8 for a in M.ANGULAR}
            clause = "export-differs" if k == 0 else "not-fixed-point"
            n0 = len(diffs)
            for (comp, det) in M.cmp_inputs(D[k], D[k + 1], algorithm=eff_alg, value_tol=vt):
                V(clause, comp, det, k + 1)
                if k == 0 and comp not in roots: roots.append(comp)
            roots.sort()
            # approximate coordinates: present for every adjusted point; unchanged from export 1 on
            for pid, pa in (X[k].adjusted.items() if X[k] is not None else ()):
                q = D[k + 1]["points"].get(pid)
                need_xy = any(c in pa for c in ("x", "X")); need_z = any(c in pa for c in ("z", "Z"))
                if q is None or (need_xy and q["x"] is None) or (need_z and q["z"] is None):
                    V("approx-missing", "xy" if need_xy and (q is None or q["x"] is None) else "z", "point %s" % pid, k + 1)
                elif k >= 1:
                    p = D[k]["points"].get(pid) or {}
                    for c in ("x", "y", "z"):
                        if p.get(c) is not None and q[c] is not None and abs(p[c] - q[c]) > 1e-8:
                            V("not-fixed-point", "approx-" + c, "%s: %r -> %r" % (pid, p[c], q[c]), k + 1, after=True)
            if len(diffs) > n0:
                res["files"]["F%d.gkf" % k] = F[k]; res["files"]["F%d.gkf" % (k + 1)] = e
            # --- configuration: the export must not depend on the other outputs requested
            if k == 0:
                ep2 = path(9, "gkf"); tmpfiles += [ep2, path(9, "xml"), path(9, "txt")]
                rc, so, se = _run(exe, path(0, "gkf"), aargs + ["--text", path(9, "txt"), "--xml", path(9, "xml"), "--export", ep2]); res["runs"] += 1
                e2 = _read(ep2)
                res["evals"] += 1
                try:
                    d2 = M.read_input(e2 or "")
                    vt2 = {a: 2e-8 for a in M.ANGULAR} if "360" in (D[1]["params"]["angular"], d2["params"]["angular"]) else None
                    for (comp, det) in M.cmp_inputs(D[1], d2, algorithm=eff_alg, value_tol=vt2):
                        V("export-depends-on-outputs", comp, "with --xml: " + det, 1)
                    if e2 != e and not any(s.startswith("C13|export-depends") for s, _ in diffs):
                        V("export-depends-on-outputs", "bytes", "files differ bytewise", 1)
                    if e2 is not None: res["hashes"].append(hashlib.sha1(e2.encode()).hexdigest()[:16])
                except ValueError as ex:
                    V("export-depends-on-outputs", "unreadable", str(ex), 1)
        res["hashes"] += [hashlib.sha1(t.encode()).hexdigest()[:16] for t in F]
        if unread:
            return _fin(res, "result-xml-not-wellformed(C12)|%s" % ("clean" if not diffs else "diff"))
        it0 = max(IT[0][0] or 0, IT[0][1])
        n_in = sum(len(M.merged_coordinates(c)) if c["kind"] == "coordinates" else sum(3 if o["kind"] == "vec" else 1 for o in c["obs"]) for c in D[0]["clusters"])
        oc = "it0=%d|removed=%d|%s|fixed-point=%s" % (min(it0, 4), n_in - X[0].equations, "clean" if not diffs else "diff",
                                                    "bytes" if len(F) > 3 and F[2] == F[1] and F[3] == F[2] else "parsed")
        if job["i"] % 97 == 0:
            res["sample"] = "%s: iterations per state %s, dof %d, pvv %.4g, exports sha %s" % (
                where, [max(a or 0, b) for a, b in IT], X[0].dof, X[0].pvv,
                [h[:6] for h in res["hashes"][-4:]])
        return _fin(res, oc)
    finally:
        if not job.get("keep"):
            for p in tmpfiles:
                try: os.unlink(p)
                except OSError: pass


def _fin(res, outcome):
    res["outcome"] = outcome
    if not res["diffs"]:
        res["files"] = {}
    return res
