"""gnet: small-network model for the gama-local checks (engine `netmc`).

* a Net holds points (true coordinates, status, approximate coordinates as
  written to the input) and clusters of observations;
* reference observation functions (plain doubles; default frame of gama-local:
  axes-xy="ne", angles="left-handed": x north, y east, bearings clockwise);
* writer of gama-local XML input, parser of the adjustment XML result,
* parallel runner of the real gama-local executable.

Units as in gama-local input: metres, gons; standard deviations in mm / cc.
"""
import math, os, subprocess, itertools, xml.etree.ElementTree as ET
import concurrent.futures as cf

G2R = math.pi / 200.0
R2G = 200.0 / math.pi
ALGS = ["envelope", "gso", "svd", "cholesky"]


class Pt:
    def __init__(self, pid, x=None, y=None, z=None, xy=None, zs=None, ax=True, az=True):
        """xy / zs: status in {None,'fix','adj','con'}; ax/az: write approximate
        coordinates (True = true values, False = omit, (dx,dy)/(dz) = offset)."""
        self.id = pid; self.x = x; self.y = y; self.z = z
        self.xy = xy; self.zs = zs; self.ax = ax; self.az = az

    def copy(self):
        return Pt(self.id, self.x, self.y, self.z, self.xy, self.zs, self.ax, self.az)


class Obs:
    """kind: direction distance angle azimuth s-distance z-angle dh vec coord"""
    def __init__(self, kind, frm=None, to=None, bs=None, fs=None, stdev=None, val=None,
                 from_dh=None, to_dh=None, bs_dh=None, fs_dh=None, extern=None, dist=None, err=0.0, comps="xyz"):
        self.kind = kind; self.frm = frm; self.to = to; self.bs = bs; self.fs = fs
        self.stdev = stdev; self.val = val
        self.from_dh = from_dh; self.to_dh = to_dh; self.bs_dh = bs_dh; self.fs_dh = fs_dh
        self.extern = extern; self.dist = dist
        self.err = err          # error added to the consistent value (obs units: m / gon); vec: tuple
        self.comps = comps      # coord: which coordinates are observed ('xy','z','xyz')

    def copy(self):
        o = Obs(self.kind); o.__dict__.update(self.__dict__); return o

    def dim(self):
        if self.kind == "vec": return 3
        if self.kind == "coord": return len(self.comps)
        return 1

    def key(self):
        return (self.kind, self.frm, self.to, self.bs, self.fs, self.comps if self.kind == "coord" else "")


class Cluster:
    """kind: obs | height-differences | coordinates | vectors.
    cov: None (stdev attributes) or (band, [rows of upper band]) covering all rows."""
    def __init__(self, kind, obs=None, frm=None, zero=0.0, cov=None, from_dh=None, orientation=None):
        self.kind = kind; self.obs = obs or []; self.frm = frm; self.zero = zero
        self.cov = cov; self.from_dh = from_dh; self.orientation = orientation

    def copy(self):
        c = Cluster(self.kind, [o.copy() for o in self.obs], self.frm, self.zero, self.cov, self.from_dh, self.orientation)
        return c

    def dim(self):
        return sum(o.dim() for o in self.obs)


class Net:
    def __init__(self, points=None, clusters=None, **params):
        self.points = points or []     # ordered list of Pt
        self.clusters = clusters or []
        self.params = dict(params)     # sigma-apr conf-pr tol-abs sigma-act ...
        self.attrs = {}                # network attributes: axes-xy, angles, epoch
        self.description = None
        self.po_attrs = {}             # points-observations attributes

    def copy(self):
        n = Net([p.copy() for p in self.points], [c.copy() for c in self.clusters], **self.params)
        n.attrs = dict(self.attrs); n.description = self.description; n.po_attrs = dict(self.po_attrs)
        return n

    def pt(self, pid):
        for p in self.points:
            if p.id == pid: return p
        raise KeyError(pid)

    def coords(self):
        return {p.id: (p.x, p.y, p.z) for p in self.points}


# ---------------------------------------------------------------- reference functions
def bearing(a, b):
    """clockwise from x (north) towards y (east), radians in [0,2pi)"""
    t = math.atan2(b[1] - a[1], b[0] - a[0])
    return t + 2 * math.pi if t < 0 else t


def hdist(a, b):
    return math.hypot(b[0] - a[0], b[1] - a[1])


def norm400(g):
    g = math.fmod(g, 400.0)
    return g + 400.0 if g < 0 else g


def ref_value(o, C, zero=0.0):
    """consistent value of observation o for coordinates C {id:(x,y,z)};
    direction: bearing - zero (gon).  vec -> (dx,dy,dz); coord -> tuple."""
    k = o.kind
    if k == "direction":
        return norm400(bearing(C[o.frm], C[o.to]) * R2G - zero)
    if k == "azimuth":
        return norm400(bearing(C[o.frm], C[o.to]) * R2G)
    if k == "distance":
        return hdist(C[o.frm], C[o.to])
    if k == "angle":
        return norm400((bearing(C[o.frm], C[o.fs]) - bearing(C[o.frm], C[o.bs])) * R2G)
    if k in ("s-distance", "z-angle"):
        a, b = C[o.frm], C[o.to]
        dz = (b[2] + (o.to_dh or 0.0)) - (a[2] + (o.from_dh or 0.0))
        d = hdist(a, b)
        if k == "s-distance": return math.sqrt(d * d + dz * dz)
        return math.atan2(d, dz) * R2G
    if k == "dh":
        return C[o.to][2] - C[o.frm][2]
    if k == "vec":
        a, b = C[o.frm], C[o.to]
        return (b[0] - a[0], b[1] - a[1], (b[2] + (o.to_dh or 0.0)) - (a[2] + (o.from_dh or 0.0)))
    if k == "coord":
        p = C[o.to]
        return tuple(p["xyz".index(c)] for c in o.comps)
    raise ValueError(k)


def fill_values(net):
    """set every obs.val to consistent value + err"""
    C = net.coords()
    for c in net.clusters:
        for o in c.obs:
            if o.frm is None and c.frm is not None and o.kind not in ("coord",):
                o.frm = c.frm
            if c.from_dh is not None and o.from_dh is None and o.kind in ("s-distance", "z-angle"):
                pass
            v = ref_value(_with_cluster_dh(o, c), C, c.zero)
            if isinstance(v, tuple):
                e = o.err if isinstance(o.err, (tuple, list)) else (o.err,) * len(v)
                o.val = tuple(a + b for a, b in zip(v, e))
            else:
                o.val = v + (o.err or 0.0)
                if o.kind in ("direction", "azimuth", "angle"):
                    o.val = norm400(o.val)
    return net


def _with_cluster_dh(o, c):
    if c.from_dh is not None and o.from_dh is None and o.kind in ("s-distance", "z-angle", "vec"):
        o2 = o.copy(); o2.from_dh = c.from_dh; return o2
    return o


# ---------------------------------------------------------------- writer
def fnum(v, nd=10):
    s = ("%.*f" % (nd, v))
    if "." in s:
        s = s.rstrip("0").rstrip(".")
    return s if s not in ("-0", "") else "0"


def xesc(s):
    return (str(s).replace("&", "&amp;").replace("<", "&lt;").replace(">", "&gt;")
            .replace('"', "&quot;").replace("'", "&apos;"))


def _status_attr(p):
    fix = ""; adj = ""
    if p.xy == "fix": fix += "xy"
    if p.zs == "fix": fix += "z"
    if p.xy == "adj": adj += "xy"
    if p.xy == "con": adj += "XY"
    if p.zs == "adj": adj += "z"
    if p.zs == "con": adj += "Z"
    s = ""
    if fix: s += ' fix="%s"' % fix
    if adj: s += ' adj="%s"' % adj
    return s


def cov_text(band, rows):
    return "\n".join("   " + " ".join(fnum(v, 12) for v in r) for r in rows)


def obs_xml(o, in_station=False):
    a = []
    k = o.kind
    def add(n, v):
        if v is not None: a.append('%s="%s"' % (n, xesc(v) if isinstance(v, str) else fnum(v, 10)))
    if k == "angle":
        if not in_station: add("from", o.frm)
        add("bs", o.bs); add("fs", o.fs)
    elif k == "direction":
        add("to", o.to)
    elif k in ("distance", "s-distance", "z-angle", "azimuth", "dh", "vec"):
        if not (in_station and k != "dh" and k != "vec"): add("from", o.frm)
        add("to", o.to)
    if k == "vec":
        add("dx", o.val[0]); add("dy", o.val[1]); add("dz", o.val[2])
    else:
        add("val", o.val)
    add("stdev", o.stdev)
    if k == "dh": add("dist", o.dist)
    add("from_dh", o.from_dh); add("to_dh", o.to_dh); add("bs_dh", o.bs_dh); add("fs_dh", o.fs_dh)
    if o.extern is not None: a.append('extern="%s"' % xesc(o.extern))
    tag = {"vec": "vec"}.get(k, k)
    return "<%s %s />" % (tag, " ".join(a))


def to_gkf(net, version=None):
    L = ['<?xml version="1.0" ?>', '<gama-local xmlns="http://www.gnu.org/software/gama/gama-local">']
    na = "".join(' %s="%s"' % (k, xesc(v)) for k, v in net.attrs.items())
    L.append("<network%s>" % na)
    if net.description is not None:
        L.append("<description>%s</description>" % xesc(net.description))
    if net.params:
        L.append("<parameters %s />" % " ".join('%s="%s"' % (k, v if isinstance(v, str) else fnum(v, 10)) for k, v in net.params.items()))
    L.append("<points-observations%s>" % "".join(' %s="%s"' % (k, v if isinstance(v, str) else fnum(v, 10)) for k, v in net.po_attrs.items()))
    for p in net.points:
        a = ['id="%s"' % xesc(p.id)]
        has_xy = p.x is not None and p.y is not None
        if has_xy and p.ax is not False and p.xy is not None:
            dx, dy = (p.ax if isinstance(p.ax, tuple) else (0.0, 0.0))
            a.append('x="%s" y="%s"' % (fnum(p.x + dx, 10), fnum(p.y + dy, 10)))
        if p.z is not None and p.az is not False and p.zs is not None:
            dz = p.az if isinstance(p.az, float) else 0.0
            a.append('z="%s"' % fnum(p.z + dz, 10))
        L.append("<point %s%s />" % (" ".join(a), _status_attr(p)))
    for c in net.clusters:
        if c.kind == "obs":
            a = ""
            if c.frm is not None: a += ' from="%s"' % xesc(c.frm)
            if c.orientation is not None: a += ' orientation="%s"' % fnum(c.orientation, 10)
            if c.from_dh is not None: a += ' from_dh="%s"' % fnum(c.from_dh, 10)
            L.append("<obs%s>" % a)
            for o in c.obs: L.append(" " + obs_xml(o, in_station=(c.frm is not None and o.frm == c.frm)))
        elif c.kind == "height-differences":
            L.append("<height-differences>")
            for o in c.obs: L.append(" " + obs_xml(o))
        elif c.kind == "vectors":
            L.append("<vectors>")
            for o in c.obs: L.append(" " + obs_xml(o))
        elif c.kind == "coordinates":
            L.append("<coordinates>")
            for o in c.obs:
                a = ['id="%s"' % xesc(o.to)]
                for ch, v in zip(o.comps, o.val): a.append('%s="%s"' % (ch, fnum(v, 10)))
                if o.extern is not None: a.append('extern="%s"' % xesc(o.extern))
                L.append(" <point %s />" % " ".join(a))
        if c.cov is not None:
            band, rows = c.cov
            L.append('<cov-mat dim="%d" band="%d">' % (c.dim(), band))
            L.append(cov_text(band, rows))
            L.append("</cov-mat>")
        L.append("</%s>" % c.kind)
    L += ["</points-observations>", "</network>", "</gama-local>", ""]
    return "\n".join(L)


def band_cov(dim, band, fn):
    """rows of the upper band; fn(i,j) value for 0-based i<=j"""
    return (band, [[fn(i, j) for j in range(i, min(dim, i + band + 1))] for i in range(dim)])


# ---------------------------------------------------------------- result parser
NS = "{http://www.gnu.org/software/gama/gama-local-adjustment}"
OBS_TAGS = ["distance", "direction", "angle", "height-diff", "slope-distance", "zenith-angle",
            "coordinate-x", "coordinate-y", "coordinate-z", "dx", "dy", "dz", "azimuth"]


class Result:
    pass


def _f(e, name, default=None):
    x = e.find(NS + name)
    if x is None or x.text is None: return default
    try: return float(x.text)
    except ValueError: return x.text.strip()


def parse_result(text):
    """returns Result; .error is set (string) for XML error documents or parse failures"""
    R = Result(); R.error = None; R.raw = text
    try:
        root = ET.fromstring(text)
    except ET.ParseError as e:
        R.error = "not-well-formed: %s" % e; R.wellformed = False; return R
    R.wellformed = True
    if root.tag.endswith("gama-local-adjustment") is False:
        R.error = "unexpected root " + root.tag; return R
    err = root.find(NS + "error")
    if err is not None:
        R.error = "error-document: " + " | ".join((d.text or "").strip() for d in err.iter(NS + "description"))
        R.error_category = err.get("category")
        return R
    R.description = (root.findtext(NS + "description") or "")
    gp = root.find(NS + "network-general-parameters")
    R.general = dict(gp.attrib) if gp is not None else {}
    s = root.find(NS + "network-processing-summary")
    R.counts = {}
    cs = s.find(NS + "coordinates-summary")
    for grp in cs:
        R.counts[grp.tag.replace(NS, "")] = {c.tag.replace(NS, ""): int(c.text) for c in grp}
    R.obs_summary = {c.tag.replace(NS, ""): int(c.text) for c in s.find(NS + "observations-summary")}
    pe = s.find(NS + "project-equations")
    R.equations = int(_f(pe, "equations")); R.unknowns = int(_f(pe, "unknowns"))
    R.dof = int(_f(pe, "degrees-of-freedom")); R.defect = int(_f(pe, "defect"))
    R.pvv = _f(pe, "sum-of-squares")
    R.connected = pe.find(NS + "connected-network") is not None
    sd = s.find(NS + "standard-deviation")
    R.sd = {}
    for c in sd:
        t = c.tag.replace(NS, "")
        if c.text is None or not c.text.strip(): R.sd[t] = True
        else:
            try: R.sd[t] = float(c.text)
            except ValueError: R.sd[t] = c.text.strip()
    co = root.find(NS + "coordinates")
    def pts(tag):
        out = {}
        e = co.find(NS + tag)
        if e is None: return out
        for p in e.findall(NS + "point"):
            d = {}
            for c in p:
                t = c.tag.replace(NS, "")
                d[t] = (c.text or "") if t == "id" else float(c.text)
            out[d["id"]] = d
        return out
    R.fixed = pts("fixed"); R.approx = pts("approximate"); R.adjusted = pts("adjusted")
    R.adj_order = [p.findtext(NS + "id") for p in (co.find(NS + "adjusted") or [])]
    R.ellipses = {}
    for e in co.find(NS + "std-error-ellipses") or []:
        R.ellipses[e.findtext(NS + "id")] = (_f(e, "major"), _f(e, "minor"), _f(e, "alpha"))
    R.orientations = []
    for e in co.find(NS + "orientation-shifts") or []:
        R.orientations.append((e.findtext(NS + "id"), _f(e, "approx"), _f(e, "adj")))
    cm = co.find(NS + "cov-mat")
    R.cov_dim = int(_f(cm, "dim")); R.cov_band = int(_f(cm, "band"))
    R.cov_flt = [float(x.text) for x in cm.findall(NS + "flt")]
    oi = co.find(NS + "original-index")
    R.orig_index = [int(x.text) for x in oi.findall(NS + "ind")] if oi is not None else []
    R.obs = []
    ob = root.find(NS + "observations")
    for e in ob if ob is not None else []:
        d = {"tag": e.tag.replace(NS, ""), "extern": e.get("extern")}
        for c in e:
            t = c.tag.replace(NS, "")
            if t in ("from", "to", "left", "right", "id"): d[t] = c.text or ""
            else:
                try: d[t] = float(c.text)
                except (TypeError, ValueError): d[t] = c.text
        R.obs.append(d)
    return R


def cov_full(R):
    """dense dim x dim matrix from the band (entries outside the band = None)"""
    n, b = R.cov_dim, R.cov_band
    M = [[None] * n for _ in range(n)]
    k = 0
    for i in range(n):
        for j in range(i, min(n, i + b + 1)):
            M[i][j] = M[j][i] = R.cov_flt[k]; k += 1
    return M


# ---------------------------------------------------------------- runner
class Run:
    __slots__ = ("rc", "stdout", "stderr", "xml", "text", "files", "timeout")


def run_gama(exe, gkf_text, workdir, name, args=(), want=("xml",), timeout=20, env=None):
    """run the real executable on gkf_text; returns Run (xml/text are strings or None)"""
    inp = os.path.join(workdir, name + ".gkf")
    with open(inp, "w") as f: f.write(gkf_text)
    cmd = [exe, inp]
    outs = {}
    for w in want:
        p = os.path.join(workdir, name + "." + w)
        outs[w] = p
        cmd += ["--" + w, p]
    cmd += list(args)
    r = Run(); r.timeout = False; r.files = outs
    try:
        pr = subprocess.run(cmd, stdout=subprocess.PIPE, stderr=subprocess.PIPE, timeout=timeout, env=env)
        r.rc = pr.returncode; r.stdout = pr.stdout.decode("utf8", "replace"); r.stderr = pr.stderr.decode("utf8", "replace")
    except subprocess.TimeoutExpired:
        r.rc = -999; r.stdout = ""; r.stderr = "timeout"; r.timeout = True
    r.xml = None; r.text = None
    for w, p in outs.items():
        if os.path.exists(p):
            try:
                with open(p, "rb") as f: data = f.read().decode("utf8", "replace")
            except OSError:
                data = None
            if w == "xml": r.xml = data
            elif w == "text": r.text = data
            try: os.unlink(p)
            except OSError: pass
    try: os.unlink(inp)
    except OSError: pass
    return r


def pool_map(fn, items, workers=16, chunksize=8):
    with cf.ProcessPoolExecutor(max_workers=workers) as ex:
        for r in ex.map(fn, items, chunksize=chunksize):
            yield r


# ---------------------------------------------------------------- small exact helpers
def collinear(a, b, c):
    return (b[0] - a[0]) * (c[1] - a[1]) - (b[1] - a[1]) * (c[0] - a[0]) == 0


def subsets(seq, kmin=0, kmax=None):
    seq = list(seq); kmax = len(seq) if kmax is None else kmax
    for k in range(kmin, kmax + 1):
        for c in itertools.combinations(seq, k):
            yield list(c)
