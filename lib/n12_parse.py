"""n12_parse: parsers and comparators of check C12.

* xml_expect(text): python (expat/ElementTree) parse of the adjustment XML ->
  the dump gama's own reader must produce (same key names as harness/xmlrt.cpp)
  plus a structured view (.X) used for the cross-format comparisons;
* harness_dumps(stdout): parse the output of xmlrt;
* html_tables(text): python parse of the HTML output;
* octave(text): parse of the .m file (strict single-quoted strings);
* text_tables(text): parse of the English text output; decimal_tokens(bytes);
* comparexyz(stdout), deformation(stdout): tool output parsers.
All comparators return lists of (signature-tail, detail).
"""
import math, re
import xml.etree.ElementTree as ET

NS = "{http://www.gnu.org/software/gama/gama-local-adjustment}"
ANGULAR = ("direction", "angle", "zenith-angle", "azimuth")
LINTAGS = ("distance", "height-diff", "slope-distance", "coordinate-x", "coordinate-y", "coordinate-z", "dx", "dy", "dz")


class XView:
    pass


def _t(e):
    return e.tag.replace(NS, "")


def xml_expect(text):
    """returns (D, X) or raises ET.ParseError.  D: key -> str|int|float."""
    root = ET.fromstring(text)
    D = {}
    X = XView()
    X.root_ok = (root.tag == NS + "gama-local-adjustment")
    D["gons"] = 1
    d = root.find(NS + "description")
    D["description"] = (d.text or "") if d is not None else ""
    X.description = D["description"]
    D["err.category"] = ""; D["err.ndesc"] = 0
    gp = root.find(NS + "network-general-parameters")
    for a in ("gama-local-version", "gama-local-algorithm", "gama-local-compiler", "axes-xy", "angles", "epoch", "latitude", "ellipsoid"):
        D["gp." + a] = gp.get(a, "")
    X.gp = dict(gp.attrib)
    s = root.find(NS + "network-processing-summary")
    cs = s.find(NS + "coordinates-summary")
    for grp in cs:
        g = _t(grp).replace("coordinates-summary-", "")
        for c in grp:
            D["cs.%s.%s" % (g, _t(c).replace("count-", ""))] = int(c.text)
    for c in s.find(NS + "observations-summary"):
        D["os." + _t(c)] = int(c.text)
    pe = s.find(NS + "project-equations")
    D["pe.linearization-iterations"] = 0
    for c in pe:
        t = _t(c)
        if t in ("equations", "unknowns", "degrees-of-freedom", "defect", "linearization-iterations"): D["pe." + t] = int(c.text)
        elif t == "sum-of-squares": D["pe.sum-of-squares"] = float(c.text)
        elif t == "connected-network": D["pe.connected"] = 1
        elif t == "disconnected-network": D["pe.connected"] = 0
    sd = s.find(NS + "standard-deviation")
    for c in sd:
        t = _t(c)
        if t in ("apriori", "aposteriori", "probability", "ratio", "lower", "upper", "confidence-scale"): D["sd." + t] = float(c.text)
        elif t == "used": D["sd.using-aposteriori"] = 1 if c.text.strip() == "aposteriori" else 0
        elif t in ("passed", "failed", "not-applicable"): D["sd.status"] = t
    co = root.find(NS + "coordinates")
    X.points = {}
    adj_index = 0
    for lst in ("fixed", "approximate", "adjusted"):
        e = co.find(NS + lst)
        pts = []
        for i, p in enumerate(e.findall(NS + "point")):
            q = {"id": "", "x": 0.0, "y": 0.0, "z": 0.0, "hxy": 0, "hz": 0, "cxy": 0, "cz": 0, "indx": 0, "indy": 0, "indz": 0}
            for c in p:
                t = _t(c)
                if t == "id": q["id"] = c.text or ""
                elif t in "xyXY": q[t.lower()] = float(c.text); q["hxy"] = 1; q["cxy"] = 1 if t in "XY" else q["cxy"]
                elif t in "zZ": q["z"] = float(c.text); q["hz"] = 1; q["cz"] = 1 if t == "Z" else 0
            if lst == "adjusted":
                if q["hxy"]: q["indx"] = adj_index + 1; q["indy"] = adj_index + 2; adj_index += 2
                if q["hz"]: q["indz"] = adj_index + 1; adj_index += 1
            pts.append(q)
            for k, v in q.items(): D["%s.%d.%s" % (lst, i, k)] = v
        D[lst + ".n"] = len(pts)
        X.points[lst] = pts
    el = co.find(NS + "std-error-ellipses")
    X.ellipses = []
    for i, e in enumerate(el if el is not None else []):
        r = {"id": e.findtext(NS + "id") or ""}
        for k in ("major", "minor", "alpha"): r[k] = float(e.findtext(NS + k))
        for k, v in r.items(): D["ellipse.%d.%s" % (i, k)] = v
        X.ellipses.append(r)
    D["ellipse.n"] = len(X.ellipses)
    X.orientations = []
    for i, e in enumerate(co.find(NS + "orientation-shifts")):
        adj_index += 1
        r = {"id": e.findtext(NS + "id") or "", "approx": float(e.findtext(NS + "approx")), "adj": float(e.findtext(NS + "adj")), "index": adj_index}
        for k, v in r.items(): D["ori.%d.%s" % (i, k)] = v
        X.orientations.append(r)
    D["ori.n"] = len(X.orientations)
    cm = co.find(NS + "cov-mat")
    X.dim = int(cm.findtext(NS + "dim")); X.band = int(cm.findtext(NS + "band"))
    X.flt_text = [f.text for f in cm.findall(NS + "flt")]
    X.flt = [float(t) for t in X.flt_text]
    D["cov.dim"] = X.dim; D["cov.band"] = X.band; D["cov.n"] = len(X.flt)
    for i, v in enumerate(X.flt): D["cov.%d" % i] = v
    oi = co.find(NS + "original-index")
    X.orig = [int(e.text) for e in oi.findall(NS + "ind")]
    D["oi.n"] = len(X.orig) + 1; D["oi.0"] = -1
    for i, v in enumerate(X.orig): D["oi.%d" % (i + 1)] = v
    X.obs = []
    ob = root.find(NS + "observations")
    for i, e in enumerate(ob):
        r = {"tag": _t(e), "from": "", "to": "", "left": "", "right": "", "obs": 0.0, "adj": 0.0, "stdev": 0.0, "qrr": 0.0, "f": 0.0,
             "std-residual": 0.0, "err-obs": "", "err-adj": ""}
        for c in e:
            t = _t(c)
            if t == "id": r["from"] = c.text or ""
            elif t in ("from", "to", "left", "right"): r[t] = c.text or ""
            elif t in ("err-obs", "err-adj"): r[t] = (c.text or "").strip()
            else: r[t] = float(c.text)
        d = r["adj"] - r["obs"]
        if r["tag"] in ANGULAR:
            if d >= 400 or abs(d - 400) < abs(d): d -= 400
            d *= 10
        r["residual"] = d * 1000
        r["extern"] = e.get("extern")
        for k, v in r.items():
            if k != "extern": D["obs.%d.%s" % (i, k)] = v
        X.obs.append(r)
    D["obs.n"] = len(X.obs)
    return D, X


def unesc(s):
    out = []; i = 0; b = s
    while i < len(b):
        c = b[i]
        if c == "\\" and i + 1 < len(b):
            n = b[i + 1]
            if n == "\\": out.append("\\"); i += 2; continue
            if n == "t": out.append("\t"); i += 2; continue
            if n == "n": out.append("\n"); i += 2; continue
            if n == "r": out.append("\r"); i += 2; continue
            if n == "x": out.append(chr(int(b[i + 2:i + 4], 16))); i += 4; continue
        out.append(c); i += 1
    return "".join(out)


STRKEYS = re.compile(r"^(description|err\.category|gp\..*|sd\.status|.*\.id|obs\.\d+\.(tag|from|to|left|right|err-obs|err-adj))$")


def harness_dumps(stdout):
    """list of dict(kind, file, end, D)"""
    res = []; cur = None
    for line in stdout.split("\n"):
        if line.startswith("BEGIN\t"):
            f = line.split("\t")
            cur = {"kind": f[1], "file": unesc(f[2]), "end": None, "D": {}}
        elif line.startswith("END\t") and cur is not None:
            cur["end"] = line[4:]; res.append(cur); cur = None
        elif cur is not None and "\t" in line:
            k, v = line.split("\t", 1)
            if STRKEYS.match(k): cur["D"][k] = unesc(v)
            else:
                try: cur["D"][k] = int(v)
                except ValueError:
                    try: cur["D"][k] = float(v)
                    except ValueError: cur["D"][k] = v
    return res


def feq(a, b, rel=4e-16, ab=0.0):
    if a == b: return True
    if isinstance(a, float) and isinstance(b, float) and (math.isnan(a) or math.isnan(b)): return False
    return abs(a - b) <= max(ab, rel * max(abs(a), abs(b)))


def field_class(k):
    """structural class of a dump key: list name + field name"""
    return re.sub(r"\.\d+", "", k)


def compare_dump(exp, got):
    """field by field; returns list of (class, detail)"""
    out = []
    for k, v in exp.items():
        if k not in got:
            out.append((field_class(k), "field %s missing in the reader's data (expected %r)" % (k, v))); continue
        g = got[k]
        if isinstance(v, str) or isinstance(g, str):
            if str(v) != str(g): out.append((field_class(k), "%s: file has %r, reader has %r" % (k, v, g)))
        elif not feq(float(v), float(g)):
            out.append((field_class(k), "%s: file has %r, reader has %r" % (k, v, g)))
    for k in got:
        if k not in exp:
            out.append((field_class(k), "reader has extra field %s=%r" % (k, got[k])))
    return out


# ---------------------------------------------------------------- covariance
def band_index(dim, band):
    """list of (i,j) 0-based in the order of the <flt> elements"""
    return [(i, j) for i in range(dim) for j in range(i, min(dim, i + band + 1))]


def full_cov(X):
    M = {}
    for (ij, v) in zip(band_index(X.dim, X.band), X.flt_text): M[ij] = v
    return M


# ---------------------------------------------------------------- HTML
def html_tables(text):
    """python parse of gama's XHTML; {table id: [rows of cell texts]} plus
    '_angles' (400|360) and '_description'.  Raises ET.ParseError."""
    t = text.replace("&nbsp;", " ").replace("&minus;", "-")
    t = re.sub(r"<!DOCTYPE[^>]*>", "", t, count=1)
    root = ET.fromstring(t)
    H = {"_angles": 400, "_description": None, "_p": []}
    for e in root.iter():
        tag = e.tag.split("}")[-1]
        i = e.get("id")
        if tag == "p": H["_p"].append((i, "".join(e.itertext())))
        if i == "angles360": H["_angles"] = 360
        if i == "description": H["_description"] = "".join(e.itertext())
        if tag == "table" and i:
            rows = []
            for tr in e.iter():
                if tr.tag.split("}")[-1] != "tr": continue
                cells = []
                for td in tr:
                    if td.tag.split("}")[-1] == "td": cells.append("".join(td.itertext()).strip())
                if cells: rows.append((tr.get("id"), cells))
            H[i] = rows
    return H


def dms2gon(s):
    m = re.match(r"^\s*(-?)\s*(\d+)-(\d+)-(\d+(?:\.\d*)?)\s*$", s)
    if not m: raise ValueError("not d-m-s: %r" % s)
    g = (int(m.group(2)) / 360.0 + int(m.group(3)) / 21600.0 + float(m.group(4)) / 1296000.0) * 400.0
    return -g if m.group(1) else g


def html_view(H):
    """adjusted coordinates / orientations / observations / residuals from the tables"""
    V = {"coords": [], "ori": [], "obs": [], "res": {}, "fixed": []}
    ang = H["_angles"]
    aval = (lambda s: float(s)) if ang == 400 else dms2gon
    cur = None
    for (_, c) in H.get("adjusted_coordinates", []):
        if len(c) >= 2 and c[0] == "" and c[1] != "" and all(x == "" for x in c[2:]):
            cur = c[1]; continue
        if len(c) == 8 and c[0] != "":
            V["coords"].append({"index": int(c[0]), "id": cur, "c": c[1], "con": c[2] == "*", "approx": float(c[3]), "adj": float(c[5]), "sd": float(c[6]), "conf": c[7]})
    for (_, c) in H.get("adjusted_heights", []):
        if len(c) == 8 and c[0] != "":
            V["coords"].append({"index": int(c[0]), "id": c[1], "c": "Z" if c[2] == "*" else "z", "con": c[2] == "*", "approx": float(c[3]), "adj": float(c[5]), "sd": float(c[6]), "conf": c[7]})
    for (_, c) in H.get("adjusted_orientations", []):
        if len(c) == 7:
            V["ori"].append({"index": int(c[0]), "id": c[1], "approx": aval(c[2]), "adj": aval(c[4]), "sd": float(c[5])})
    frm = None; pend = None
    for (_, c) in H.get("adjusted_observations", []):
        if len(c) == 3:              # first row of an angle: i, from, bs
            if c[1] != "": frm = c[1]
            pend = (int(c[0]), frm, c[2]); continue
        if len(c) == 8 and pend is not None and c[0] == "":
            i, f, bs = pend; pend = None
            V["obs"].append({"i": i, "from": f, "left": bs, "right": c[2], "to": "", "label": c[3], "obs": aval(c[4]), "adj": aval(c[5]), "sd": float(c[6])})
            continue
        if len(c) == 8:
            if c[1] != "": frm = c[1]
            a = c[3] in ("dir.", "zen.", "azim.", "angle")
            V["obs"].append({"i": int(c[0]), "from": frm, "to": c[2], "left": "", "right": "", "label": c[3],
                             "obs": aval(c[4]) if a else float(c[4]), "adj": aval(c[5]) if a else float(c[5]), "sd": float(c[6])})
    pend = None
    for (_, c) in H.get("residuals", []):
        if len(c) == 3: pend = int(c[0]); continue
        if len(c) >= 7:
            i = pend if (c[0] == "" and pend is not None) else int(c[0]); pend = None
            V["res"][i] = {"f": float(c[4]), "v": float(c[6]), "vs": float(c[7]) if len(c) > 7 and c[7] != "" else None}
    hdr = None
    for (_, c) in H.get("fixed_points", []):
        V["fixed"].append(c)
    return V


# ---------------------------------------------------------------- Octave
class OctaveError(Exception):
    pass


def octave(text):
    """{name: value}: scalars (float), matrices (list of rows), cell arrays of
    strings (list of str); every `tmp = [` block is collected in 'tmp' (list).
    Single-quoted strings follow the Octave rule ('' inside a string = ')."""
    O = {"tmp": []}
    lines = text.split("\n")
    i = 0
    while i < len(lines):
        ln = lines[i]
        m = re.match(r"^(\w+)\s*=\s*\{\s*$", ln)
        if m:
            name = m.group(1); items = []; i += 1
            while i < len(lines) and lines[i].strip() != "};":
                s = lines[i].strip()
                mm = re.match(r"^'((?:[^']|'')*)'$", s)
                if not mm:
                    raise OctaveError("cell array %s: line %r is not a single-quoted Octave string" % (name, lines[i]))
                items.append(mm.group(1).replace("''", "'"))
                i += 1
            O[name] = items; i += 1; continue
        m = re.match(r"^(\w+)\s*=\s*\[\s*(%.*)?$", ln)
        if m:
            name = m.group(1); rows = []; cur = []; i += 1
            while i < len(lines) and lines[i].strip() != "];":
                s = lines[i].split("%")[0].strip()
                cont = s.endswith("...")
                if cont: s = s[:-3]
                for part in re.split(r"(;)", s):
                    if part == ";":
                        if cur: rows.append(cur); cur = []
                    else:
                        try: cur += [float(x) for x in part.split()]
                        except ValueError: raise OctaveError("matrix %s: bad number in %r" % (name, lines[i]))
                if not cont and cur and not s.endswith(";"):
                    rows.append(cur); cur = []
                i += 1
            if cur: rows.append(cur)
            if name == "tmp": O["tmp"].append(rows)
            else: O[name] = rows
            i += 1; continue
        m = re.match(r"^(\w+)\s*=\s*([-+0-9.eE]+|nan|inf|-inf);\s*$", ln)
        if m: O[m.group(1)] = float(m.group(2))
        i += 1
    return O


# ---------------------------------------------------------------- text output
# a number may directly follow a letter (the Finnish text has "maksimiresiduaali1.70")
DEC = re.compile(rb"(?<![\d.])-?\d+-\d\d-\d\d\.\d+|(?<![\d.\-])-?\d+\.\d+(?:[eE][-+]?\d+)?(?![\w.])")
NUM = r"-?\d+\.\d+"


def decimal_tokens(data):
    """all decimal numbers (and d-m-s values) of a text output, in order (bytes in, list of bytes)"""
    return DEC.findall(data)


def text_sections(text):
    """{title: [lines]} for titles underlined with asterisks"""
    L = text.split("\n"); S = {}; cur = None
    for i, l in enumerate(L):
        if i + 1 < len(L) and l.strip() and re.match(r"^\*+\s*$", L[i + 1]) and len(L[i + 1].rstrip()) >= 4:
            cur = l.strip(); S.setdefault(cur, []); continue
        if cur is not None and not re.match(r"^\*+\s*$", l): S[cur].append(l)
    return S


def text_view(text, degrees):
    S = text_sections(text)
    V = {"coords": [], "ori": [], "obs": {}, "res": {}}
    av = r"-?\s*\d+-\d\d-\d\d\.\d+" if degrees else NUM
    conv = dms2gon if degrees else float
    for l in S.get("Adjusted coordinates", []):
        m = re.match(r"^\s*(\d+)\s+([xyzXYZ])\s+(\*\s+)?(%s)\s+(%s)\s+(%s)\s+(%s)\s+(%s)\s*$" % ((NUM,) * 5), l)
        if m: V["coords"].append({"index": int(m.group(1)), "c": m.group(2), "con": bool(m.group(3)), "approx": float(m.group(4)), "adj": float(m.group(6)), "sd": float(m.group(7)), "conf": m.group(8)})
    for l in S.get("Adjusted heights", []):
        m = re.match(r"^\s*(\d+)\s+(.*?)\s+(\*\s+)?(%s)\s+(%s)\s+(%s)\s+(%s)\s+(%s)\s*$" % ((NUM,) * 5), l)
        if m: V["coords"].append({"index": int(m.group(1)), "c": "z", "id": m.group(2), "con": bool(m.group(3)), "approx": float(m.group(4)), "adj": float(m.group(6)), "sd": float(m.group(7)), "conf": m.group(8)})
    for l in S.get("Adjusted orientation unknowns", []):
        m = re.match(r"^\s*(\d+)\s+(.*?)\s+(%s)\s+(%s)\s+(%s)\s+(%s)\s+(%s)\s*$" % (av, av, av, NUM, NUM), l)
        if m: V["ori"].append({"index": int(m.group(1)), "id": m.group(2), "approx": conv(m.group(3)), "adj": conv(m.group(5)), "sd": float(m.group(6))})
    lines = S.get("Adjusted observations", [])
    pend = None
    for l in lines:
        m = re.match(r"^\s*(\d+)\s", l)
        tail = re.search(r"(%s|%s)\s+(%s|%s)\s+(%s)\s+(%s)\s*$" % (av, NUM, av, NUM, NUM, NUM), l)
        if pend is not None and tail:
            V["obs"][pend] = (tail.group(1), tail.group(2), float(tail.group(3))); pend = None
        elif m and tail:
            V["obs"][int(m.group(1))] = (tail.group(1), tail.group(2), float(tail.group(3)))
        elif m and not tail: pend = int(m.group(1))
    pend = None
    for l in S.get("Residuals and analysis of observations", []):
        m = re.match(r"^\s*(\d+)\s", l)
        tail = re.search(r"\s(\d+\.\d)( [uw])?\s+(-?\d+\.\d{3})(?:\s+(\d+\.\d)\s*(mc|m|c)?(?:\s+(-?\d+\.\d)\s*(-?\d+\.\d))?)?\s*$", l)
        if pend is not None and tail:
            V["res"][pend] = {"f": float(tail.group(1)), "v": float(tail.group(3)), "vs": float(tail.group(4)) if tail.group(4) else None}; pend = None
        elif m and tail: V["res"][int(m.group(1))] = {"f": float(tail.group(1)), "v": float(tail.group(3)), "vs": float(tail.group(4)) if tail.group(4) else None}
        elif m and not tail: pend = int(m.group(1))
    V["has_res"] = "Residuals and analysis of observations" in S
    V["sections"] = list(S.keys())
    return V


# ---------------------------------------------------------------- statistics block
def fval(s):
    """number as printed (nan / inf / -nan included); None when it is no number"""
    try: return float(s)
    except (TypeError, ValueError): return None


_W = r"(\S+)"
_PARTIAL = [("m0-distances", "m0'/m0 (distances): "), ("m0-directions", "m0'/m0 (directions): "), ("m0-angles", "m0'/m0 (angles): "),
            ("m0-directions-angles", "m0'/m0 (directions/angles): ")]


def _stats_tail(t, T):
    """ratio / interval / partial ratios / maximal residual sentences (same wording in the text and in the HTML output)"""
    m = re.search(r"Maximal decrease of m0''/m0 on elimination of one observation:\s*" + _W, t)
    if m: T["max-decrease"] = fval(m.group(1))
    m = re.search(r"Maximal (studentized|normalized) residual\s+" + _W + r"\s+(exceeds|does not exceed)\s+critical value\s+" + _W +
                  r"\s*on significance level\s+" + _W + r"\s+% for observation #(\d+)", t)
    if m:
        T["max-kind"] = m.group(1); T["max-residual"] = fval(m.group(2)); T["max-exceeds"] = (m.group(3) == "exceeds")
        T["critical-value"] = fval(m.group(4)); T["significance-pct"] = fval(m.group(5)); T["max-index"] = int(m.group(6))
    elif "Maximal studentized residual" in t or "Maximal normalized residual" in t:
        T["max-kind"] = "unparsed"


def text_stats(text):
    """statistics of the English text output ('General parameters of the adjustment'); a key is absent when the line is"""
    T = {}
    k = text.find("Number of project equations")
    e = text.find("\nFixed points\n", k)
    if e < 0: e = text.find("\nAdjusted ", k)
    t = text[k:e if e > 0 else len(text)] if k >= 0 else ""
    m = re.search(r"Number of project equations:\s*(\d+)\s+Number of unknowns:\s*(\d+)", t)
    if m: T["equations"] = int(m.group(1)); T["unknowns"] = int(m.group(2))
    m = re.search(r"Degrees of freedom\s*:\s*(-?\d+)\s+Network defect\s*:\s*(\d+)", t)
    if m: T["dof"] = int(m.group(1)); T["defect"] = int(m.group(2))
    m = re.search(r"m0  apriori\s*:\s*" + _W, t)
    if m: T["apriori"] = fval(m.group(1))
    m = re.search(r"m0' aposteriori:\s*" + _W + r"\s+\[pvv\] :\s*" + _W, t)
    if m: T["aposteriori"] = fval(m.group(1)); T["pvv"] = fval(m.group(2))
    m = re.search(r"- with (aposteriori|apriori) standard deviation\s+" + _W, t)
    if m: T["used"] = m.group(1); T["m0-used"] = fval(m.group(2))
    m = re.search(r"- with confidence level\s+" + _W + r" %", t)
    if m: T["confidence-pct"] = fval(m.group(1))
    m = re.search(r"Ratio m0' aposteriori / m0 apriori:\s*" + _W, t)
    if m: T["ratio"] = fval(m.group(1))
    m = re.search(_W + r" % interval \(" + r"([^,\s]+),\s*([^)\s]+)\)\s+(contains|does not contain) value m0'/m0", t)
    if m:
        T["interval-pct"] = fval(m.group(1)); T["lower"] = fval(m.group(2)); T["upper"] = fval(m.group(3)); T["passed"] = (m.group(4) == "contains")
    elif "% interval" in t: T["interval-pct"] = None; T["lower"] = T["upper"] = None; T["passed"] = None
    for key, lab in _PARTIAL:
        m = re.search(re.escape(lab) + _W, t)
        if m: T[key] = fval(m.group(1))
    _stats_tail(t, T)
    return T


def html_stats(H):
    """the same from the tables project_equations / sum_of_squares / standard_deviation / standard_deviation_2 and the paragraphs of the HTML output"""
    T = {}
    pe = H.get("project_equations") or []
    if len(pe) >= 2 and len(pe[0][1]) >= 4 and len(pe[1][1]) >= 4:
        T["equations"] = int(pe[0][1][1]); T["unknowns"] = int(pe[0][1][3]); T["dof"] = int(pe[1][1][1]); T["defect"] = int(pe[1][1][3])
    ss = H.get("sum_of_squares") or []
    if len(ss) >= 2 and len(ss[1][1]) >= 4:
        T["apriori"] = fval(ss[0][1][1]); T["aposteriori"] = fval(ss[1][1][1]); T["pvv"] = fval(ss[1][1][3])
    for (rid, c) in H.get("standard_deviation") or []:
        if rid in ("a_posteriori", "a_priori") and len(c) >= 2:
            T["used"] = "aposteriori" if rid == "a_posteriori" else "apriori"; T["m0-used"] = fval(c[1])
            T["used-label"] = "aposteriori" if "aposteriori" in c[0] else "apriori"
        elif len(c) >= 3 and c[2] == "%":
            T["confidence-pct"] = fval(c[1])
    for (rid, c) in H.get("standard_deviation_2") or []:
        if rid in ("test_m0_passed", "test_m0_failed") and len(c) >= 5:
            T["passed"] = (rid == "test_m0_passed"); T["lower"] = fval(c[2]); T["upper"] = fval(c[4])
            m = re.match(r"^(\S+) % interval (contains|does not contain) value", c[0])
            T["interval-pct"] = fval(m.group(1)) if m else None
            T["passed-label"] = (m.group(2) == "contains") if m else None
        elif rid == "confidence_scale" and len(c) >= 3: T["confidence-scale"] = fval(c[2])
        elif c and c[0].startswith("Ratio m0'") and len(c) >= 3: T["ratio"] = fval(c[2])
        else:
            for key, lab in _PARTIAL:
                if c and c[0] == lab.strip() and len(c) >= 3: T[key] = fval(c[2])
    _stats_tail(" ".join(t for (_, t) in H.get("_p", [])), T)
    return T


# ---------------------------------------------------------------- coordinates summary
SUMMARY_KEYS = [(g, c) for g in ("adjusted", "constrained", "fixed") for c in ("xyz", "xy", "z")]


def text_summary(text):
    """{(group, cat): count} + ('total', cat) from the table 'Coordinates xyz xy z' of the English text output"""
    T = {}
    for lab, g in (("Adjusted", "adjusted"), ("Constrained  *", "constrained"), ("Fixed", "fixed"), ("Total", "total")):
        m = re.search(r"^" + re.escape(lab) + r"\s*:\s*(\d+)\s+(\d+)\s+(\d+)\s*$", text, re.M)
        if m:
            for c, v in zip(("xyz", "xy", "z"), m.groups()): T[(g, c)] = int(v)
    return T


def html_summary(H):
    T = {}
    for (_, c) in H.get("coordinates_summary") or []:
        g = {"Adjusted": "adjusted", "Constrained  *": "constrained", "Constrained *": "constrained", "Fixed": "fixed", "Total": "total"}.get(c[0] if c else None)
        if g and len(c) >= 4:
            for k, v in zip(("xyz", "xy", "z"), c[1:4]): T[(g, k)] = int(v)
    return T


# ---------------------------------------------------------------- tools
def comparexyz(out):
    """{'points': [(id, dim, x, y, z, dx, dy, dz)], 'max': (DX,DY,DZ), 'verdict': 'Passed'|'Failed', 'absmax', 'tol'}"""
    R = {"points": [], "max": None, "verdict": None}
    L = out.split("\n"); i = 0
    while i < len(L):
        l = L[i]
        m = re.match(r"^(.*\S)\s+(\d)\s+(-?\d+\.\d+)\s+(-?\d+\.\d+)\s+(-?\d+\.\d+)\s*$", l)
        if m and not l.startswith("#") and i + 1 < len(L):
            d = re.match(r"^\s+(-?\d+\.\d+)\s+(-?\d+\.\d+)\s+(-?\d+\.\d+)\s*$", L[i + 1])
            if d:
                R["points"].append((m.group(1), int(m.group(2)), float(m.group(3)), float(m.group(4)), float(m.group(5)),
                                    float(d.group(1)), float(d.group(2)), float(d.group(3))))
                i += 2; continue
        m = re.match(r"^max\s+(-?\d+\.\d+)\s+(-?\d+\.\d+)\s+(-?\d+\.\d+)\s*$", l)
        if m: R["max"] = tuple(float(m.group(k)) for k in (1, 2, 3))
        m = re.match(r"^(Passed|Failed)\s+(\S+)\s+[<>]\s+(\S+)\s*$", l)
        if m: R["verdict"] = m.group(1); R["absmax"] = float(m.group(2)); R["tol"] = float(m.group(3))
        i += 1
    return R


def deformation(out):
    """{'points': [(id, ix, iy, iz, dx, dy, dz, x2, y2, z2)], 'dim', 'band', 'cov': [rows]}"""
    R = {"points": [], "dim": None, "band": None, "cov": []}
    part = out.split("# deformation covariance matrix of x,y,z shifts")
    for l in part[0].split("\n"):
        if l.startswith("#") or not l.strip(): continue
        m = re.match(r"^\s*(.*\S)\s+(\d+)\s+(\d+)\s+(\d+)\s+(-?\d+\.\d+)\s+(-?\d+\.\d+)\s+(-?\d+\.\d+)\s+(-?\d+\.\d+)\s+(-?\d+\.\d+)\s+(-?\d+\.\d+)\s*$", l)
        if m:
            R["points"].append((m.group(1),) + tuple(int(m.group(k)) for k in (2, 3, 4)) + tuple(float(m.group(k)) for k in range(5, 11)))
        else:
            R.setdefault("junk", []).append(l)
    if len(part) > 1:
        ls = [l for l in part[1].split("\n") if l.strip()]
        if ls:
            h = ls[0].split()
            R["dim"] = int(h[0]); R["band"] = int(h[1])
            R["cov"] = [[float(x) for x in l.split()] for l in ls[1:]]
    return R
