"""n08_iter: the "linearization iterations" dimension of C08.

The 3-D families in which heights enter non-linearly (sz: slope distances +
zenith angles, sd: slope distances only) are run a second time with POOR
approximate coordinates (offsets of 0.6 .. 1.8 m in z and 3 .. 9 cm in xy,
fixed patterns) and with the iterations of gama-local enabled (default limit
5).  Which coordinates are constrained then decides where every intermediate
linearization point lies; the datum-independent results must not care.

What gama does with these inputs (measured on the unchanged tree, all
masks, all algorithms, thorough tier): gama replaces the approximate
coordinates and linearizes again as long as some adjusted observation computed
from its residual differs from the one computed from the adjusted coordinates
by >= 5e-7 m as a position.  The first solution moves the points by up to
1.8 m (offsets 0) / 4.5 m (offsets 1), second-order error ~ 1e-2 .. 1e-1 m;
after one replacement it is 1e-7 .. 1e-5 m, after two 1e-13 .. 1e-8 m: every
run stops after 1 - 2 iterations with a final misclosure between 1e-13 and
4.9e-7 m -- whatever gama's own rule accepts.  The oracle therefore MEASURES
the misclosure e and the last correction of every run and derives its
tolerances from them (see n08_check.evaluate):
  * a run has converged iff iterations < limit and e <= 6e-7 m (gama's rule
    + 20 % for the different way an angle is turned into a position);
  * residuals, adjusted observations, shape invariants: 1e-6 + 4 max e
    (each run is within ~ e of the non-linear solution: the next Gauss-Newton
    step is the weighted projection of e; measured spread <= 0.5 max e);
  * [pvv]: 2 (sqrt[pvv] + E) E + E^2 per run, E = weighted norm of e
    (|r - e|^2 - |r|^2; measured spread <= 0.4 of it);
  * standard deviations of adjusted observations: cofactors belong to the last
    linearization point, which is one last correction s away from the
    solution: relative 20 s / 100 m (measured <= 0.8 s / 100 m).

Parameters of the iterated inputs:
  tol-abs = 100000 mm   the absolute terms (up to 3.3 m) must not be taken for
                        blunders (gama drops observations above tol-abs);
  sigma-apr = 1         with sigma-apr = 10 (the value of the other inputs)
                        algorithm envelope refuses about a third of the
                        admissible sets at a non-lattice linearization point
                        ("No unknowns have been defined"): Envelope::cholDec
                        compares pivots of the unscaled normal matrix with an
                        absolute tolerance, known finding C09|run|failed|*|envelope.
                        sigma-apr only scales [pvv] by 1/100.
"""
import math, os, sys
sys.path.insert(0, os.path.dirname(os.path.abspath(__file__)))
import gnet

# offsets (dx, dy, dz) of the approximate coordinates per point index, metres
OFFSETS = [
    [(0.09, -0.06, 1.2), (-0.06, 0.09, -0.9), (0.03, 0.06, 1.5), (-0.09, -0.03, -1.8), (0.06, -0.09, 0.6)],
    [(-0.08, 0.22, -3.7), (0.22, 0.08, 4.5), (-0.15, -0.22, 2.2), (0.15, -0.15, -1.5), (-0.22, 0.15, -3.0)],
]
PARAMS = {"sigma-apr": 1, "tol-abs": 100000}
KINDS = ("sz", "sd")            # vectors are linear observations: gama never iterates on them
RUN_ARGS = []                   # no --iterations: the default limit (5) of gama-local
MAX_ITER = 5

TOL_CONV = 6e-7      # m: gama's stopping rule (5e-7 m) + 20 %
TOL_STEP = 0.05      # m: sanity bound of the last correction (measured <= 1.5e-2)
K_MISCL = 4.0        # tolerance of datum-independent lengths: 1e-6 + K_MISCL * max misclosure
K_SD = 20.0          # relative tolerance of standard deviations: K_SD * last correction / 100 m (shortest sight)
ROUND_APPROX = 5e-7  # m: <approximate> is printed with 6 decimals


def label(var):
    return "iterated[offsets %d]" % var[1]


def applies(f):
    """iterated variants exist for the free (no fixed point) sz / sd networks"""
    import re
    return re.match(r"[a-z]+", f.name).group(0) in KINDS and ".fix" not in f.name and f.gen is not None


def apply(net, var):
    """net (statuses set) -> copy with poor approximate coordinates"""
    n = net.copy()
    off = OFFSETS[var[1]]
    for i, p in enumerate(n.points):
        dx, dy, dz = off[i]
        p.ax = (dx, dy); p.az = dz
    n.params.update(PARAMS)
    return n


def generator_value(g, t, xyz):
    x, y, z = xyz
    if g == "tx": return 1.0 if t == "x" else 0.0
    if g == "ty": return 1.0 if t == "y" else 0.0
    if g == "tz": return 1.0 if t == "z" else 0.0
    if g == "rz": return {"x": -y, "y": x, "z": 0.0}[t]
    if g == "rx": return {"x": 0.0, "y": -z, "z": y}[t]
    if g == "ry": return {"x": z, "y": 0.0, "z": -x}[t]
    if g == "sc": return {"x": x, "y": y, "z": z}[t]
    raise ValueError(g)


def misclosure(net, C, obs_out, m0):
    """linearization misclosure of one run: for every observation the
    difference between the adjusted value printed by gama (observed +
    residual of the linearized model) and the value computed from the
    adjusted coordinates C.  -> (largest difference as a position [m],
    E = m0 * sqrt(sum (e_i/sigma_i)^2), the same norm as sqrt([pvv]))"""
    allobs = [o for c in net.clusters for o in c.obs]
    if len(allobs) != len(obs_out):
        return None, None
    emax = 0.0; s2 = 0.0
    for o, out in zip(allobs, obs_out):
        adj = out[6]
        v = gnet.ref_value(o, C)
        d = v - adj
        if o.kind == "z-angle":
            d = math.fmod(d, 400.0)
            pos = abs(d) * math.pi / 200.0 * gnet.ref_value(gnet.Obs("s-distance", o.frm, o.to), C)
            w = d * 1e4 / o.stdev            # cc / cc
        else:
            pos = abs(d)
            w = d * 1e3 / o.stdev            # mm / mm
        emax = max(emax, pos); s2 += w * w
    return emax, m0 * math.sqrt(s2)


def given_approx(gkf):
    """the approximate coordinates exactly as written to the input: {id: (x, y, z)}"""
    import re
    out = {}
    for m in re.finditer(r"<point\s+([^>]*)/>", gkf):
        a = dict(re.findall(r'(\w+)="([^"]*)"', m.group(1)))
        out[a["id"]] = tuple(float(a[k]) if k in a else None for k in ("x", "y", "z"))
    return out
