"""n20_gen: networks with planted rank deficiencies (C20).

Integer lattice coordinates (so that n08_ref classifies exactly), consistent
observations + a fixed +-0.5 mm / +-1.5 cc sign pattern.  Every network comes
with its list of switchable constraints (XY / Z of every free coordinate
group); the check enumerates all 2^k subsets.

Deficiency classes
  split     two disconnected components, the second one without any datum
  hinge     a free part tied to the datum part by one distance only
  single    a point with a single determining element (one distance / one
            direction / one slope distance + zenith angle in 3-D)
  noscale   angles (or directions) only with one fixed point
  noheight  3-D points whose height is not observed / heights without datum
  levsplit  levelling network in two components
  free      free networks (no fixed point) -- the C08 families, here with
            ALL constraint subsets including insufficient / non-spanning
"""
import itertools, os, sys
sys.path.insert(0, os.path.dirname(os.path.abspath(__file__)))
import gnet
from gnet import Pt, Obs, Cluster, Net
from n08_gen import PAR, E_LEN, E_ANG, sgn


class Case:
    def __init__(self, name, cls, net):
        self.name = name; self.cls = cls; self.net = net


class _B:
    """small builder: keeps the running observation counter for the sign pattern"""
    def __init__(self, pat):
        self.pat = pat; self.k = 0; self.pts = []; self.clusters = []; self.loose = []

    def p(self, pid, x, y, z=None, xy="adj", zs=None):
        self.pts.append(Pt(pid, x, y, z, xy=xy, zs=zs)); return self

    def pz(self, pid, z, zs="adj"):
        self.pts.append(Pt(pid, None, None, z, xy=None, zs=zs)); return self

    def e(self, amp):
        v = amp * sgn(self.pat, self.k); self.k += 1; return v

    def dist(self, *pairs):
        for a, b in pairs: self.loose.append(Obs("distance", a, b, stdev=5.0, err=self.e(E_LEN)))
        return self

    def sdist(self, *pairs):
        for a, b in pairs: self.loose.append(Obs("s-distance", a, b, stdev=5.0, err=self.e(E_LEN)))
        return self

    def zang(self, *pairs):
        for a, b in pairs: self.loose.append(Obs("z-angle", a, b, stdev=10.0, err=self.e(E_ANG)))
        return self

    def angle(self, *triples):
        for s, b, f in triples: self.loose.append(Obs("angle", s, None, bs=b, fs=f, stdev=10.0, err=self.e(E_ANG)))
        return self

    def dirs(self, s, targets, zero=23.0):
        obs = [Obs("direction", s, t, stdev=10.0, err=self.e(E_ANG)) for t in targets]
        self.clusters.append(Cluster("obs", obs, frm=s, zero=zero)); return self

    def dh(self, *pairs):
        obs = [Obs("dh", a, b, stdev=2.0, err=self.e(E_LEN)) for a, b in pairs]
        self.clusters.append(Cluster("height-differences", obs)); return self

    def vec(self, *pairs):
        obs = []
        for a, b in pairs:
            obs.append(Obs("vec", a, b, err=(self.e(E_LEN), self.e(E_LEN), self.e(E_LEN))))
        cov = gnet.band_cov(3 * len(obs), 0, lambda i, j: 25.0)
        self.clusters.append(Cluster("vectors", obs, cov=cov)); return self

    def net(self):
        cl = list(self.clusters)
        if self.loose: cl.append(Cluster("obs", self.loose))
        return Net(self.pts, cl, **PAR)


def all_angles(b, ids):
    for s in ids:
        oth = [t for t in ids if t != s]
        for i in range(len(oth) - 1):
            b.angle((s, oth[i], oth[i + 1]))


def cases(tier):
    C = []
    th = tier != "quick"
    pats = (0, 1) if th else (0,)
    for pat in pats:
        # ---------------- split: comp1 with datum, comp2 free
        for v in ((0, 1, 2) if th else (0,)):
            b = _B(pat)
            b.p("A", 0, 0, xy="fix").p("B", 200, 0, xy="fix").p("C", 100, 100)
            b.dist(("A", "C"), ("B", "C")).dirs("C", ["A", "B"])
            if v == 0:
                b.p("D", 0, 100).p("E", 0, 200).p("F", 200, 200)
                b.dist(("D", "E"), ("E", "F"), ("D", "F"))
            elif v == 1:
                b.p("D", 0, 100).p("E", 0, 200).p("F", 200, 200).p("G", 200, 100)
                b.dist(("D", "E"), ("E", "F"), ("D", "F"), ("D", "G"), ("E", "G"), ("F", "G"))
            else:
                b.p("D", 0, 100).p("E", 0, 200).p("F", 200, 200)
                b.dist(("D", "E"), ("E", "F"), ("D", "F")).dirs("D", ["E", "F"]).dirs("F", ["D", "E"], zero=61.0)
            C.append(Case("split.v%d.p%d" % (v, pat), "split", b.net()))
        # ---------------- hinge: free part tied by one distance
        for v in ((0, 1) if th else (0,)):
            b = _B(pat)
            b.p("A", 0, 0, xy="fix").p("B", 200, 0, xy="fix").p("C", 100, 100)
            b.dist(("A", "C"), ("B", "C")).dirs("C", ["A", "B"])
            b.p("D", 0, 100).p("E", 0, 200).p("F", 200, 200)
            b.dist(("D", "E"), ("E", "F"), ("D", "F"), ("C", "D"))
            if v == 1:
                b.dirs("E", ["D", "F"], zero=77.0)
            C.append(Case("hinge.v%d.p%d" % (v, pat), "hinge", b.net()))
        # ---------------- single determining element
        b = _B(pat)
        b.p("A", 0, 0, xy="fix").p("B", 200, 0, xy="fix").p("C", 100, 100).p("P", 0, 200)
        b.dist(("A", "C"), ("B", "C")).dirs("C", ["A", "B"]).dist(("C", "P"))
        C.append(Case("single.dist.p%d" % pat, "single", b.net()))
        b = _B(pat)
        b.p("A", 0, 0, xy="fix").p("B", 200, 0, xy="fix").p("C", 100, 100).p("P", 300, 100)
        b.dist(("A", "C"), ("B", "C")).dirs("C", ["A", "B"]).dist(("C", "P"))
        C.append(Case("single.axis.p%d" % pat, "single", b.net()))      # seen along a coordinate axis only: its y column is exactly zero, not 1e-16
        b = _B(pat)
        b.p("A", 0, 0, xy="fix").p("B", 200, 0, xy="fix").p("C", 100, 100).p("P", 0, 200)
        b.dist(("A", "C"), ("B", "C")).dirs("A", ["B", "C", "P"])
        C.append(Case("single.dir.p%d" % pat, "single", b.net()))
        b = _B(pat)
        b.p("A", 0, 0, 0, xy="fix", zs="fix").p("B", 200, 0, 10, xy="fix", zs="fix")
        b.p("C", 100, 100, 30, zs="adj").p("P", 0, 200, 10, zs="adj")
        b.sdist(("A", "C"), ("B", "C")).zang(("A", "C"), ("B", "C")).dirs("C", ["A", "B"])
        b.sdist(("C", "P")).zang(("C", "P"))
        C.append(Case("single.3d.p%d" % pat, "single", b.net()))
        if th:
            b = _B(pat)
            b.p("A", 0, 0, xy="fix").p("B", 200, 0, xy="fix").p("C", 100, 100).p("P", 0, 200).p("Q", 200, 200)
            b.dist(("A", "C"), ("B", "C")).dirs("C", ["A", "B"]).dist(("C", "P"), ("B", "Q"))
            C.append(Case("single.two.p%d" % pat, "single", b.net()))
            b = _B(pat)
            b.p("A", 0, 0, xy="fix").p("B", 200, 0, xy="fix").p("C", 100, 100).p("P", 0, 200)
            b.dist(("A", "C"), ("B", "C")).dirs("C", ["A", "B"]).angle(("C", "A", "P"))
            C.append(Case("single.angle.p%d" % pat, "single", b.net()))
        # ---------------- missing scale
        b = _B(pat)
        b.p("A", 0, 0, xy="fix").p("B", 200, 100).p("C", 100, 200).p("D", 0, 100)
        all_angles(b, ["A", "B", "C", "D"])
        C.append(Case("noscale.ang.p%d" % pat, "noscale", b.net()))
        b = _B(pat)
        b.p("A", 0, 0, xy="fix").p("B", 200, 100).p("C", 100, 200).p("D", 0, 100)
        for i, s in enumerate("ABCD"):
            b.dirs(s, [t for t in "ABCD" if t != s], zero=11.0 + 30 * i)
        C.append(Case("noscale.dir.p%d" % pat, "noscale", b.net()))
        if th:
            b = _B(pat)
            b.p("A", 0, 0, xy="fix").p("B", 200, 100).p("C", 100, 200).p("D", 0, 100).p("E", 200, 200)
            all_angles(b, ["A", "B", "C", "D", "E"])
            C.append(Case("noscale.ang5.p%d" % pat, "noscale", b.net()))
        # ---------------- missing heights
        b = _B(pat)
        b.p("A", 0, 0, 0, xy="fix", zs="fix").p("B", 200, 0, 10, xy="fix", zs="fix")
        b.p("C", 100, 100, 30, zs="adj").p("D", 0, 200, 10, zs="adj")
        b.sdist(("A", "C"), ("B", "C")).zang(("A", "C"), ("B", "C")).dist(("A", "D"), ("B", "D"), ("C", "D"))
        C.append(Case("noheight.unobs.p%d" % pat, "noheight", b.net()))
        b = _B(pat)
        b.p("A", 0, 0, 0, xy="fix", zs="adj").p("B", 200, 0, 10, xy="fix", zs="adj").p("C", 100, 100, 30, zs="adj")
        b.dist(("A", "C"), ("B", "C")).dirs("C", ["A", "B"]).dh(("A", "B"), ("B", "C"), ("C", "A"))
        C.append(Case("noheight.float.p%d" % pat, "noheight", b.net()))
        b = _B(pat)
        b.p("A", 0, 0, 0, xy="con", zs="adj").p("B", 200, 0, 10, xy="con", zs="adj").p("C", 100, 100, 30, xy="con", zs="adj")
        b.sdist(("A", "B"), ("B", "C"), ("A", "C"))
        C.append(Case("noheight.d2.p%d" % pat, "noheight", b.net()))
        # ---------------- levelling in two components
        b = _B(pat)
        b.pz("A", 0, zs="fix").pz("B", 10).pz("C", 30).pz("D", 10).pz("E", 20).pz("F", 0)
        b.dh(("A", "B"), ("B", "C"), ("C", "A"), ("D", "E"), ("E", "F"), ("F", "D"))
        C.append(Case("levsplit.p%d" % pat, "levsplit", b.net()))
        # ---------------- free networks: every subset, admissible or not
        b = _B(pat)
        b.p("A", 0, 0).p("B", 100, 0).p("C", 100, 100).p("D", 0, 200)
        b.dist(*itertools.combinations("ABCD", 2))
        C.append(Case("free.dist4.p%d" % pat, "free", b.net()))
        b = _B(pat)
        b.p("A", 0, 0).p("B", 200, 100).p("C", 100, 200).p("D", 0, 100)
        all_angles(b, ["A", "B", "C", "D"])
        C.append(Case("free.ang4.p%d" % pat, "free", b.net()))
        b = _B(pat)
        for i, (x, y, z) in enumerate([(0, 0, 0), (200, 0, 100), (100, 200, 200), (0, 100, 100)]):
            b.p("ABCD"[i], x, y, z, zs="adj")
        b.sdist(*itertools.combinations("ABCD", 2))
        C.append(Case("free.sd4.p%d" % pat, "free", b.net()))
        b = _B(pat)
        b.pz("A", 0).pz("B", 10).pz("C", 30).pz("D", 10)
        b.dh(*itertools.combinations("ABCD", 2))
        C.append(Case("free.lev4.p%d" % pat, "free", b.net()))
        b = _B(pat)
        for i, (x, y, z) in enumerate([(0, 0, 0), (100, 0, 10), (100, 100, 30), (0, 200, 10)]):
            b.p("ABCD"[i], x, y, z, zs="adj")
        b.sdist(*itertools.combinations("ABCD", 2)).zang(*itertools.combinations("ABCD", 2))
        C.append(Case("free.sz4.p%d" % pat, "free", b.net()))
        if th:
            b = _B(pat)
            for i, (x, y, z) in enumerate([(0, 0, 30), (200, 100, 0), (100, 200, 10), (0, 100, 30)]):
                b.p("ABCD"[i], x, y, z, zs="adj")
            b.sdist(*itertools.combinations("ABCD", 2)).zang(*itertools.combinations("ABCD", 2))
            C.append(Case("free.sz4b.p%d" % pat, "free", b.net()))
            b = _B(pat)
            for i, (x, y, z) in enumerate([(0, 0, 0), (100, 0, 10), (100, 100, 30), (0, 200, 10)]):
                b.p("ABCD"[i], x, y, z, zs="adj")
            b.vec(("A", "B"), ("B", "C"), ("C", "D"), ("D", "A"), ("A", "C"))
            C.append(Case("free.vec4.p%d" % pat, "free", b.net()))
            b = _B(pat)
            b.p("A", 0, 0).p("B", 100, 0).p("C", 100, 100).p("D", 0, 200)
            for i, st in enumerate("ABCD"):
                b.dirs(st, [t for t in "ABCD" if t != st], zero=13.0 + 40 * i)
            b.dist(*itertools.combinations("ABCD", 2))
            C.append(Case("free.dirdist4.p%d" % pat, "free", b.net()))
            b = _B(pat)
            b.p("A", 0, 0).p("B", 200, 0).p("C", 200, 200).p("D", 0, 200).p("E", 100, 100)
            b.dist(*itertools.combinations("ABCDE", 2))
            C.append(Case("free.dist5.p%d" % pat, "free", b.net()))
            # 3-D split: second component (slope distances + zenith angles) without datum
            b = _B(pat)
            b.p("A", 0, 0, 0, xy="fix", zs="fix").p("B", 200, 0, 10, xy="fix", zs="fix").p("C", 100, 100, 30, zs="adj")
            b.sdist(("A", "C"), ("B", "C")).zang(("A", "C"), ("B", "C")).dirs("C", ["A", "B"])
            b.p("D", 0, 100, 10, zs="adj").p("E", 0, 200, 30, zs="adj").p("F", 200, 200, 0, zs="adj")
            b.sdist(("D", "E"), ("E", "F"), ("D", "F")).zang(("D", "E"), ("E", "F"), ("D", "F"))
            C.append(Case("split.3d.p%d" % pat, "split", b.net()))
            # hinge by a direction: the free part is seen from the datum part in one direction only
            b = _B(pat)
            b.p("A", 0, 0, xy="fix").p("B", 200, 0, xy="fix").p("C", 100, 100)
            b.dist(("A", "C"), ("B", "C")).dirs("C", ["A", "B", "D"])
            b.p("D", 0, 100).p("E", 0, 200).p("F", 200, 200)
            b.dist(("D", "E"), ("E", "F"), ("D", "F"))
            C.append(Case("hinge.dir.p%d" % pat, "hinge", b.net()))
            b = _B(pat)
            for i, (x, y, z) in enumerate([(0, 0, 200), (200, 0, 0), (200, 200, 100), (0, 200, 150), (100, 100, 100)]):
                b.p("ABCDE"[i], x, y, z, zs="adj")
            b.sdist(*itertools.combinations("ABCDE", 2))
            C.append(Case("free.sd5.p%d" % pat, "free", b.net()))
    return C
