"""Reference model for the g3mc engine (check C19) -- python stdlib only.

Everything here is written from the geometric definitions, not from the
gama-g3 sources:

  * WGS84 (a, 1/f), geodetic <-> geocentric conversion (closed forward form,
    fixed point iteration to convergence for the inverse, height by the
    cancellation-free formula  h = p cos B + z sin B - a sqrt(1 - e2 sin^2 B)),
  * local north / east / up frame at a point (columns of R(B, L)),
  * the eight g3 observation functions
        vector, xyz, distance, height, hdiff, zenith, azimuth, angle
    (what they *mean* was taken from Model::linearization right hand sides:
    a height is  H_ellipsoidal - geoid,  a zenith angle is measured from the
    ellipsoidal normal, an azimuth from the local north of the station, an
    angle is the clockwise horizontal angle left -> right at the station;
    with <from-dh> / <to-dh> the value refers to the instrument / the target,
    i.e. to the points displaced by that height along their own ellipsoidal
    normal - Model::instrument, Point::X_dh - see class Ob),
  * reference Jacobian w.r.t. local n/e/u displacements of every point by
    central differences with Richardson extrapolation,
  * exact rank / null space of the scaled-integer Jacobian by Gaussian
    elimination with complete pivoting in fractions.Fraction; the rank is
    accepted only when there is a gap of >= 1e3 between the smallest accepted
    pivot and the largest rejected one (otherwise the network is declared
    "rank-ambiguous" and is excluded from the alphabet by construction).
"""
import math
from decimal import Decimal, getcontext
from fractions import Fraction

getcontext().prec = 50

A_WGS84 = 6378137.0
F1_WGS84 = 298.257223563
_F = 1.0 / F1_WGS84
B_WGS84 = A_WGS84 * (1.0 - _F)
E2 = (A_WGS84 * A_WGS84 - B_WGS84 * B_WGS84) / (A_WGS84 * A_WGS84)

GON = math.pi / 200.0          # rad per gon


# --------------------------------------------------------------------- ellipsoid
def blh2xyz(b, l, h):
    sb, cb, sl, cl = math.sin(b), math.cos(b), math.sin(l), math.cos(l)
    n = A_WGS84 / math.sqrt(1.0 - E2 * sb * sb)
    return ((n + h) * cb * cl, (n + h) * cb * sl, (n * (1.0 - E2) + h) * sb)


def xyz2blh(x, y, z):
    p = math.hypot(x, y)
    l = math.atan2(y, x)
    b = math.atan2(z, p * (1.0 - E2))
    for _ in range(60):
        sb = math.sin(b)
        n = A_WGS84 / math.sqrt(1.0 - E2 * sb * sb)
        # tan B = (z + e2 N sin B) / p
        nb = math.atan2(z + E2 * n * sb, p)
        if abs(nb - b) < 1e-17:
            b = nb
            break
        b = nb
    sb, cb = math.sin(b), math.cos(b)
    h = p * cb + z * sb - A_WGS84 * math.sqrt(1.0 - E2 * sb * sb)
    return b, l, h


def frame(b, l):
    """unit vectors north, east, up (geocentric components) at latitude b, longitude l"""
    sb, cb, sl, cl = math.sin(b), math.cos(b), math.sin(l), math.cos(l)
    n = (-sb * cl, -sb * sl, cb)
    e = (-sl, cl, 0.0)
    u = (cb * cl, cb * sl, sb)
    return n, e, u


def dot(a, b):
    return a[0] * b[0] + a[1] * b[1] + a[2] * b[2]


def sub(a, b):
    return (a[0] - b[0], a[1] - b[1], a[2] - b[2])


def add(a, b):
    return (a[0] + b[0], a[1] + b[1], a[2] + b[2])


def mul(a, s):
    return (a[0] * s, a[1] * s, a[2] * s)


def norm(a):
    return math.sqrt(dot(a, a))


def local(p_from, p_to):
    """n, e, u components of the sight p_from -> p_to in the frame of p_from"""
    b, l, _ = xyz2blh(*p_from)
    n, e, u = frame(b, l)
    d = sub(p_to, p_from)
    return dot(n, d), dot(e, d), dot(u, d)


# --------------------------------------------------------------------- observations
# an observation is a tuple (type, ids...)  ; X maps id -> (x, y, z) floats
DIM = {"vector": 3, "xyz": 3, "distance": 1, "height": 1, "hdiff": 1,
       "zenith": 1, "azimuth": 1, "angle": 1}
ANGULAR = ("zenith", "azimuth", "angle")
# which parameters of its points an observation refers to (g3 indexes N,E,U of
# the points of every observation except the two levelling types)
USES_NEU = {"vector": True, "xyz": True, "distance": True, "zenith": True,
            "azimuth": True, "angle": True, "height": False, "hdiff": False}


def obs_points(o):
    return list(o[1:])


# types whose observed value refers to an instrument / a target above the marks
# (read off DataParser::g3_obs_*: <from-dh>/<to-dh> are accepted by <vector>, <distance>,
# <zenith>, <azimuth>; <angle> accepts <from-dh>; <hdiff> stores nothing, its tags are
# commented out).  'f' = from-dh, 't' = to-dh.
DH_ENDS = {"vector": "ft", "distance": "ft", "zenith": "ft", "azimuth": "ft", "angle": "f"}


class Ob(tuple):
    """an observation tuple (type, ids...) that carries instrument / target heights:
    .dh = (from_dh, to_dh) in metres (0.0 = not given), .dhs = the strings written to
    the input file (None = element not written).  Compares and hashes as the plain tuple."""
    def __new__(cls, o, dhs=(None, None)):
        self = tuple.__new__(cls, tuple(o))
        self.dhs = tuple(dhs)
        self.dh = tuple(float(s) if s is not None else 0.0 for s in dhs)
        return self


def up_at(p):
    """unit normal of the ellipsoid (the local vertical: no deflections) at point p"""
    b, l, _ = xyz2blh(*p)
    return frame(b, l)[2]


def lifted(p, dh):
    """the point dh metres above / below p along its local vertical"""
    return add(p, mul(up_at(p), dh)) if dh else p


def obs_value(o, X, geoid=None):
    """tuple of values: metres for linear types, radians for angular types.
    If o carries heights (class Ob) the value refers to the instrument above the
    first point and - except for angles, whose targets carry no to-dh - to the
    target above the second one, both displaced along their own local vertical."""
    t = o[0]
    geoid = geoid or {}
    dh = getattr(o, "dh", None)
    if dh and (dh[0] or dh[1]) and t in DH_ENDS:
        X = dict(X)
        if dh[0] and "f" in DH_ENDS[t]:
            X[o[1]] = lifted(X[o[1]], dh[0])
        if dh[1] and "t" in DH_ENDS[t]:
            X[o[2]] = lifted(X[o[2]], dh[1])
    if t == "vector":
        return sub(X[o[2]], X[o[1]])
    if t == "xyz":
        return tuple(X[o[1]])
    if t == "distance":
        return (norm(sub(X[o[2]], X[o[1]])),)
    if t == "height":
        return (xyz2blh(*X[o[1]])[2] - geoid.get(o[1], 0.0),)
    if t == "hdiff":
        return ((xyz2blh(*X[o[2]])[2] - geoid.get(o[2], 0.0)) -
                (xyz2blh(*X[o[1]])[2] - geoid.get(o[1], 0.0)),)
    if t == "zenith":
        n, e, u = local(X[o[1]], X[o[2]])
        return (math.atan2(math.hypot(n, e), u),)
    if t == "azimuth":
        n, e, u = local(X[o[1]], X[o[2]])
        a = math.atan2(e, n)
        return (a if a >= 0 else a + 2 * math.pi,)
    if t == "angle":
        n1, e1, _ = local(X[o[1]], X[o[2]])
        n2, e2, _ = local(X[o[1]], X[o[3]])
        a = math.atan2(e2, n2) - math.atan2(e1, n1)
        while a < 0:
            a += 2 * math.pi
        while a >= 2 * math.pi:
            a -= 2 * math.pi
        return (a,)
    raise ValueError(t)


def _wrap(d):
    while d > math.pi:
        d -= 2 * math.pi
    while d < -math.pi:
        d += 2 * math.pi
    return d


def obs_diff(o, v1, v0):
    """difference of two values of observation o (angles wrapped)"""
    if o[0] in ANGULAR:
        return tuple(_wrap(a - b) for a, b in zip(v1, v0))
    return tuple(a - b for a, b in zip(v1, v0))


def jacobian_rows(o, X, frames, geoid=None, h=0.5):
    """rows (one per component) of d obs / d (n,e,u of each of its points);
    returns list of dicts {(id, k): value}, k = 0,1,2 for n,e,u.
    Central differences, steps h and h/2, Richardson extrapolation.  Linear
    rows in metres per metre, angular rows in radians per metre."""
    rows = [dict() for _ in range(DIM[o[0]])]
    t = o[0]
    if t in ("vector", "xyz", "height", "hdiff"):
        # linear in the coordinates / in the ellipsoidal heights: exact rows
        # (the gradient of the ellipsoidal height is the unit normal = "up")
        for j, pid in enumerate(obs_points(o)):
            sgn = -1.0 if (t in ("vector", "hdiff") and j == 0) else 1.0
            for k in range(3):
                if t in ("height", "hdiff"):
                    rows[0][(pid, k)] = sgn if k == 2 else 0.0
                else:
                    for i in range(3):
                        rows[i][(pid, k)] = sgn * frames[pid][k][i]
        return rows
    for pid in dict.fromkeys(obs_points(o)):
        for k in range(3):
            dirv = frames[pid][k]
            est = []
            for hh in (h, h / 2):
                Xp = dict(X)
                Xm = dict(X)
                Xp[pid] = add(X[pid], mul(dirv, hh))
                Xm[pid] = add(X[pid], mul(dirv, -hh))
                d = obs_diff(o, obs_value(o, Xp, geoid), obs_value(o, Xm, geoid))
                est.append([c / (2 * hh) for c in d])
            for i in range(len(rows)):
                rows[i][(pid, k)] = (4 * est[1][i] - est[0][i]) / 3.0
    return rows


# --------------------------------------------------------------------- exact rank
SCALE_BITS = 44          # entries rounded to multiples of 2^-44 (6e-14)
ACCEPT = 1e-2            # a pivot >= ACCEPT is non-zero (well conditioned)
REJECT = 1e-10           # all remaining entries <= REJECT: the rest is zero
                         # anything in between: rank "ambiguous" (ill conditioned)


def rank_nullspace(M, ncols):
    """M: list of rows (lists of floats), already scaled by the caller so that
    the natural size of a non-zero entry is 1 (each observation row divided by
    the largest derivative w.r.t. *any* coordinate of its points).  Entries are
    rounded to scaled integers; Gaussian elimination with complete pivoting in
    exact rational arithmetic.  Returns (rank, null space basis as float
    lists, status) with status 'ok' or 'ambiguous'."""
    rows = [[Fraction(int(round(v * (1 << SCALE_BITS))), 1 << SCALE_BITS) for v in r] for r in M]
    colperm = list(range(ncols))
    rank = 0
    nr = len(rows)
    status = "ok"
    while rank < nr and rank < ncols:
        best, bi, bj = Fraction(0), -1, -1
        for i in range(rank, nr):
            ri = rows[i]
            for j in range(rank, ncols):
                a = abs(ri[j])
                if a > best:
                    best, bi, bj = a, i, j
        if best <= REJECT:
            break
        if best < ACCEPT:
            status = "ambiguous"
            break
        rows[rank], rows[bi] = rows[bi], rows[rank]
        if bj != rank:
            for r in rows:
                r[rank], r[bj] = r[bj], r[rank]
            colperm[rank], colperm[bj] = colperm[bj], colperm[rank]
        pr = rows[rank]
        pv = pr[rank]
        for i in range(nr):
            if i != rank and rows[i][rank] != 0:
                f = rows[i][rank] / pv
                ri = rows[i]
                for j in range(rank, ncols):
                    if pr[j] != 0:
                        ri[j] -= f * pr[j]
                # keep the numbers short: the deciding thresholds are 1e-2 / 1e-10,
                # so rounding the Schur complement to 2^-60 (1e-18) is harmless
                for j in range(rank, ncols):
                    if ri[j].denominator > (1 << 70):
                        ri[j] = Fraction(int(round(ri[j] * (1 << 60))), 1 << 60)
        rank += 1
    basis = []
    for f in range(rank, ncols):
        v = [0.0] * ncols
        v[colperm[f]] = 1.0
        for k in range(rank):
            v[colperm[k]] = float(-rows[k][f] / rows[k][k])
        basis.append(v)
    return rank, basis, status


def orthonormal(basis):
    out = []
    for b in basis:
        v = list(b)
        for _ in range(2):
            for q in out:
                s = sum(x * y for x, y in zip(v, q))
                v = [x - s * y for x, y in zip(v, q)]
        n = math.sqrt(sum(x * x for x in v))
        out.append([x / n for x in v])
    return out


def resolves(basis, S):
    """does the regularisation subset S (column indices) resolve the null
    space spanned by basis?  'yes' <=> the orthonormalised basis restricted to
    S has full column rank with all pivots >= ACCEPT; 'no' <=> rank deficient
    with the rest <= REJECT; otherwise 'ambiguous' (resolved only through a
    badly conditioned coupling)."""
    if not basis:
        return "yes"
    if not S:
        return "no"
    Q = orthonormal(basis)
    M = [[q[j] for q in Q] for j in S]      # |S| x d
    r, _, st = rank_nullspace(M, len(Q))
    if st != "ok":
        return "ambiguous"
    return "yes" if r == len(Q) else "no"


# --------------------------------------------------------------------- decimal helpers
def dec(x, nd):
    """float -> Decimal rounded to nd decimals"""
    return Decimal(repr(float(x))).quantize(Decimal(1).scaleb(-nd))


def fmt(x):
    """shortest decimal string that reads back as the same double, no exponent"""
    s = repr(float(x))
    if "e" in s or "E" in s:
        s = format(Decimal(s), "f")
    return s
