"""n14_model: everything C14 needs besides gnet.

* network templates (2-D with three placements of the new points, 3-D,
  levelling), named observations, deterministic small noise; the POSITION
  family (template~r<k>: cluster list rotated, blunder targets @k = k-th
  scalar of the input) and the direction sets with repeated targets
  (DP.<word> / DF.<word>);
* defect injection (structural defects, blunders of a prescribed POSITIONAL
  size) and the enumeration of cases;
* the reference model: approximate orientation = median of the estimates
  (doc/gama-local-adj.texi "Approximate coordinates"), positional misclosure
  per observation type (doc "Gross absolute terms" + TestAbsTermVisitor for
  the types the manual does not mention), structural revision to a fixpoint;
* readers of the text output (Removed points, Outlying absolute terms,
  counts), input-vs-XML difference, deletion of items from a Net, comparison
  of two results;
* run_case(): the worker evaluated for every enumerated case.
"""
import math, os, re
from gnet import (Pt, Obs, Cluster, Net, fill_values, to_gkf, bearing, hdist, norm400, fnum,
                  G2R, R2G, ALGS, run_gama, parse_result)

F_SIZES = (0.5, 0.9, 0.999, 1.001, 1.1, 2.0)
NOISE = 0.4            # noise = +-NOISE*sigma, sign pattern Thue-Morse over the scalar index
TAG = {"direction": "direction", "distance": "distance", "angle": "angle", "azimuth": "azimuth",
       "s-distance": "slope-distance", "z-angle": "zenith-angle", "dh": "height-diff"}
ANGULAR = ("direction", "angle", "azimuth", "zenith-angle")
TXT_TYPE = {"dir.": "direction", "dist.": "distance", "angle": "angle", "azim.": "azimuth", "h dif": "height-diff",
            "slope": "slope-distance", "zen.": "zenith-angle", "x dif": "dx", "y dif": "dy", "z dif": "dz",
            "x": "coordinate-x", "y": "coordinate-y", "z": "coordinate-z"}


def tm_sign(k):
    return 1.0 if bin(k).count("1") % 2 == 0 else -1.0


# ------------------------------------------------------------------ templates
PLACEMENTS = [((200, 100), (100, 200)), ((200, 200), (100, 100)), ((100, 0), (200, 200))]


def _st(frm, tos, zero, names):
    obs = []
    for k, t in enumerate(tos):
        o = Obs("direction", frm, t, stdev=10.0 + 2.0 * (k % 3)); o.name = "r%s%s" % (frm, t); names[o.name] = o; obs.append(o)
    return Cluster("obs", obs, frm=frm, zero=zero)


def _o(names, name, kind, frm=None, to=None, **kw):
    if "stdev" in kw:                       # unequal weights inside every cluster
        kw["stdev"] = kw["stdev"] + (1.0 if kw["stdev"] < 8 else 2.0) * (len(names) % 3)
    o = Obs(kind, frm, to, **kw); o.name = name; names[name] = o
    return o


def _cov(dim, band, d, offs):
    """band matrix with unequal variances d, d+9, d+18, d, ... and covariances offs[k]*(1+0.25*(i%2)):
    strictly diagonally dominant for the values used (positive definite)"""
    rows = []
    for i in range(dim):
        rows.append([d + 9.0 * (i % 3) if j == i else offs[j - i - 1] * (1 + 0.25 * (i % 2))
                     for j in range(i, min(dim, i + band + 1))])
    return (band, rows)


def tpl_parts(tpl):
    """'T2.0~r3' -> (base 'T2', core 'T2.0', rotation 3); rotation None when there is no '~' part.
    Templates with a '~' part are the POSITION family: all angular standard deviations are 10 (equal to
    the only sigma-apr used with them, so that D10 cannot interfere) and the cluster list of the complete
    input (base network + structural defects) is rotated left by the given number of clusters."""
    core, _, opt = tpl.partition("~")
    return core.split(".")[0], core, (int(opt[1:]) if opt else None)


# direction sets with repeated targets: noise of the k-th direction in units of its sigma (distinct
# magnitudes, so that two directions to the same target never carry the same value)
D_NOISE = (0.4, -0.3, 0.2, -0.1)


def d_patterns(tier):
    """target patterns of the D templates: words of length 3..4 over {A,B,C} with at least two distinct
    letters.  quick: one word per renaming class (restricted growth strings, 4 + 13); thorough: all 24 + 78"""
    import itertools
    out = []
    for n in (3, 4):
        for w in itertools.product("ABC", repeat=n):
            if len(set(w)) < 2: continue
            if tier != "thorough":
                first = []
                for ch in w:
                    if ch not in first: first.append(ch)
                if first != sorted(first) or first[0] != "A": continue
                if "C" in first and "B" not in first: continue
            out.append("".join(w))
    return out


def build_template(tpl):
    """returns (net, names) ; names: name -> Obs"""
    names = {}
    base, core, rot = tpl_parts(tpl)
    tpl = core
    if base in ("DP", "DF"):
        # one direction set whose target list is the word core[3:] (repeated targets, closing the horizon ...)
        #  DP: station = the new point P (targets: fixed A, B, C), P held by three distances which stand in
        #      the same <obs> cluster BEHIND the directions;
        #  DF: station = the fixed point A (letters A, B, C -> new P, fixed B, new Q), P and Q held by six
        #      distances in a cluster of their own BEFORE the set: the last direction is the last observation
        word = core.split(".")[1]
        P = [Pt("A", 0, 0, xy="fix"), Pt("B", 200, 0, xy="fix"), Pt("C", 0, 200, xy="fix"), Pt("P", 200, 100, xy="adj")]
        if base == "DP":
            st, tmap, zero = "P", {"A": "A", "B": "B", "C": "C"}, 70.0
        else:
            P.append(Pt("Q", 100, 200, xy="adj"))
            st, tmap, zero = "A", {"A": "P", "B": "B", "C": "Q"}, 30.0
        dirs = []
        for k, ch in enumerate(word):
            o = Obs("direction", st, tmap[ch], stdev=10.0); o.name = "r%d" % k; names[o.name] = o; dirs.append(o)
        def dist(a, b, sd):
            o = Obs("distance", a, b, stdev=sd); o.name = "d" + a + b; names[o.name] = o; return o
        if base == "DP":
            cl = [Cluster("obs", dirs + [dist("P", "A", 5.0), dist("P", "B", 6.0), dist("P", "C", 7.0)], frm="P", zero=zero)]
        else:
            cl = [Cluster("obs", [dist(a, b, 5.0 + (k % 3)) for k, (a, b) in enumerate(("AP", "BP", "CP", "AQ", "BQ", "CQ"))]),
                  Cluster("obs", dirs, frm="A", zero=zero)]
        return Net(P, cl), names
    if tpl.startswith("T2"):
        (px, py), (qx, qy) = PLACEMENTS[int(tpl.split(".")[1])]
        P = [Pt("A", 0, 0, xy="fix"), Pt("B", 200, 0, xy="fix"), Pt("C", 0, 200, xy="fix"),
             Pt("P", px, py, xy="adj"), Pt("Q", qx, qy, xy="adj")]
        cl = [_st("A", "BCPQ", 0.0, names), _st("B", "APQ", 30.0, names),
              _st("P", "ABQ", 70.0, names), _st("Q", "CP", 120.0, names)]
        cl.append(Cluster("obs", [_o(names, "d" + a + b, "distance", a, b, stdev=5.0)
                                  for a, b in ("AP", "BP", "CQ", "BQ", "PQ")]))
        cl.append(Cluster("obs", [_o(names, "aCAQ", "angle", "C", bs="A", fs="Q", stdev=10.0),
                                  _o(names, "aCQP", "angle", "C", bs="Q", fs="P", stdev=10.0)]))
        cl.append(Cluster("obs", [_o(names, "zAQ", "azimuth", "A", "Q", stdev=10.0)]))
        cl.append(Cluster("coordinates", [_o(names, "cQ", "coord", None, "Q", comps="xy")], cov=_cov(2, 1, 25.0, [10.0])))
        cl.append(Cluster("coordinates", [_o(names, "kQ", "coord", None, "Q", comps="xy")], cov=_cov(2, 0, 25.0, [])))
    elif tpl == "T3":
        # heights chosen so that the sights have several elevations: B-Q, A-B flat; P-Q dz/d = 0.42;
        # A-P, C-P 0.54; B-P, C-Q 0.6 (slope / horizontal distance 1.00, 1.09, 1.13, 1.17)
        P = [Pt("A", 0, 0, 0, xy="fix", zs="fix"), Pt("B", 200, 0, 60, xy="fix", zs="fix"),
             Pt("C", 0, 200, 0, xy="fix", zs="fix"),
             Pt("P", 200, 100, 120, xy="adj", zs="adj"), Pt("Q", 100, 200, 60, xy="adj", zs="adj")]
        cl = [_st("A", "BCPQ", 0.0, names), _st("B", "APQ", 30.0, names)]
        cl.append(Cluster("obs", [_o(names, "d" + a + b, "distance", a, b, stdev=5.0) for a, b in ("AP", "CQ")]))
        cl.append(Cluster("obs", [_o(names, "s" + a + b, "s-distance", a, b, stdev=5.0)
                                  for a, b in ("AP", "BP", "BQ", "CQ", "PQ")]))
        cl.append(Cluster("obs", [_o(names, "za" + a + b, "z-angle", a, b, stdev=10.0)
                                  for a, b in ("AP", "BQ", "BP", "CP", "PQ")]))
        cl.append(Cluster("height-differences", [_o(names, "h" + a + b, "dh", a, b, stdev=5.0)
                                                 for a, b in ("AP", "CQ", "PQ")]))
        cl.append(Cluster("vectors", [_o(names, "vAQ", "vec", "A", "Q"), _o(names, "vBP", "vec", "B", "P")],
                          cov=_cov(6, 2, 25.0, [5.0, 2.0])))
        cl.append(Cluster("coordinates", [_o(names, "cP", "coord", None, "P", comps="z")], cov=_cov(1, 0, 25.0, [])))
        cl.append(Cluster("coordinates", [_o(names, "kP", "coord", None, "P", comps="z")], cov=_cov(1, 0, 25.0, [])))
    elif tpl == "TL":
        P = [Pt("A", z=0, zs="fix"), Pt("B", z=30, zs="fix"), Pt("P", z=10, zs="adj"),
             Pt("Q", z=30, zs="adj"), Pt("R", z=0, zs="adj")]
        cl = [Cluster("height-differences", [_o(names, "h" + a + b, "dh", a, b, stdev=5.0)
                                             for a, b in ("AP", "PQ", "QB", "AR")]),
              Cluster("height-differences", [_o(names, "h" + a + b, "dh", a, b, stdev=5.0)
                                             for a, b in ("RB", "PR", "QR")]),
              Cluster("coordinates", [_o(names, "cQ", "coord", None, "Q", comps="z")], cov=_cov(1, 0, 25.0, [])),
              Cluster("coordinates", [_o(names, "kQ", "coord", None, "Q", comps="z")], cov=_cov(1, 0, 25.0, []))]
    else:
        raise ValueError(tpl)
    # D10 (test on the homogenised right-hand side) is on the tree: the angular blunder targets get
    # stdev 10, so that for sigma-apr = 10 the threshold clause is decidable for them at every size
    for tg in TARGETS[tpl.split(".")[0]]:
        o = names[tg.split(".")[0]]
        if o.kind in ("direction", "angle", "azimuth", "z-angle"): o.stdev = 10.0
    if rot is not None:                     # position family: every observation is a blunder target
        for o in names.values():
            if o.kind in ("direction", "angle", "azimuth", "z-angle"): o.stdev = 10.0
    net = Net(P, cl)
    return net, names


# blunder targets per template: name[.components]; "exact" ones admit the factor 1 (misclosure == tol-abs exactly)
TARGETS = {
    "T2": ["rAP", "rBQ", "rQC", "dAP", "dBP", "aCAQ", "aCQP", "zAQ", "cQ.x", "cQ.xy", "kQ.x"],
    "T3": ["rBP", "sAP", "sBP", "zaBQ", "zaPQ", "zaAP", "zaBP", "hCQ", "vAQ.x", "vAQ.xyz", "vBP.z", "cP.z", "kP.z"],
    "TL": ["hPQ", "hQR", "cQ.z", "kQ.z"],
}
EXACT = {"T2": ["dBP"], "T3": ["hCQ"], "TL": ["hAP"]}
# the last coordinates record of a point defines its approximate coordinates: an error there is a
# shift of the approximate coordinates, not a misclosure of that observation (defines_approx(); in the
# document order of the templates these are the records kQ / kP)
# a point whose ONLY element is one observation, in every role of every type that does not determine
# it: v-* the point has coordinates (removed after the first revision: singular_coords / null_space),
# u-* it has none (removed by revision_points).  r-st: the point is the station of two directions.
ROLES = {"T2": ["d-from", "d-to", "r-st", "r-to", "a-st", "a-bs", "a-fs", "z-from", "z-to"],
         "T3": ["d-to", "s-from", "s-to", "za-from", "za-to"], "TL": []}
STRUCT = {
    "T2": ["iso", "isonc", "w2d", "sgl", "sgld", "dup"] + [p + r for p in ("v-", "u-") for r in ROLES["T2"]],
    "T3": ["iso3", "iso3nc", "isoz", "sgl"] + [p + r for p in ("v-", "u-") for r in ROLES["T3"]],
    "TL": ["isoL", "isoLnc"],
}
_POS = [(50, 50), (150, 50), (50, 150), (150, 150), (50, 100), (150, 100), (100, 50), (100, 150), (30, 70)]


def add_struct(net, names, d):
    P, C = net.points, net.clusters
    def st(frm, to): return Obs("direction", frm, to, stdev=10.0)
    if d[:2] in ("v-", "u-"):
        role = d[2:]; three = any(p.z is not None for p in P)
        allr = ROLES["T3" if three else "T2"]
        k = allr.index(role); x, y = _POS[k]
        pid = (d[0] + role.replace("-", "")).upper()
        has = d[0] == "v"
        if three: P.append(Pt(pid, x, y, 30, xy="adj", zs="adj", ax=has, az=has))
        else:     P.append(Pt(pid, x, y, xy="adj", ax=has))
        kind = {"d": "distance", "r": "direction", "a": "angle", "z": "azimuth", "s": "s-distance", "za": "z-angle"}[role.split("-")[0]]
        sd = 5.0 if kind in ("distance", "s-distance") else 10.0
        if role == "r-st":   C.append(Cluster("obs", [st(pid, "A"), st(pid, "B")], frm=pid, zero=40.0))
        elif role == "r-to": C[1].obs.append(st("B", pid))
        elif role == "a-st": C.append(Cluster("obs", [Obs("angle", pid, bs="A", fs="B", stdev=sd)]))
        elif role == "a-bs": C.append(Cluster("obs", [Obs("angle", "C", bs=pid, fs="A", stdev=sd)]))
        elif role == "a-fs": C.append(Cluster("obs", [Obs("angle", "C", bs="A", fs=pid, stdev=sd)]))
        elif role.endswith("-from"): C.append(Cluster("obs", [Obs(kind, pid, "A", stdev=sd)]))
        else:                        C.append(Cluster("obs", [Obs(kind, "A", pid, stdev=sd)]))
    elif d == "iso":    P.append(Pt("I", 50, 50, xy="adj"))
    elif d == "isonc":  P.append(Pt("J", 50, 50, xy="adj", ax=False))
    elif d == "w2d":
        P.append(Pt("W", 50, 0, xy="adj"))
        C.append(Cluster("obs", [Obs("distance", "A", "W", stdev=5.0), Obs("distance", "B", "W", stdev=5.0)]))
    elif d == "sgl":    C.append(Cluster("obs", [st("C", "P")], frm="C", zero=200.0 / 3))
    elif d == "sgld":   C.append(Cluster("obs", [st("C", "Q"), Obs("distance", "C", "P", stdev=5.0)], frm="C", zero=50.0))
    elif d == "dup":    C.append(Cluster("obs", [st("C", "P"), st("C", "P")], frm="C", zero=10.0))
    elif d == "iso3":   P.append(Pt("I", 50, 50, 10, xy="adj", zs="adj"))
    elif d == "iso3nc": P.append(Pt("J", 50, 50, 10, xy="adj", zs="adj", ax=False, az=False))
    elif d == "isoz":   P.append(Pt("K", 50, 150, 10, xy="fix", zs="adj"))
    elif d == "isoL":   P.append(Pt("I", z=10, zs="adj"))
    elif d == "isoLnc": P.append(Pt("J", z=10, zs="adj", az=False))
    else:
        raise ValueError(d)


# ------------------------------------------------------------------ scalars
class Sc:
    __slots__ = ("idx", "ci", "oi", "comp", "obs", "cl", "tag", "frm", "to", "fs", "needs", "sigma")

    def key(self):
        return (self.tag, self.frm, self.to, self.fs)

    def ident(self):
        return (self.ci, self.oi, self.comp)

    def value(self):
        v = self.obs.val
        return v[self.comp] if isinstance(v, tuple) else v

    def label(self):
        return "%s %s-%s%s" % (self.tag, self.frm or "", self.to, ("-" + self.fs) if self.fs else "")


def scalars(net):
    out = []
    for ci, c in enumerate(net.clusters):
        for oi, o in enumerate(c.obs):
            k = o.kind
            if k == "vec":     comps = [(0, "dx"), (1, "dy"), (2, "dz")]
            elif k == "coord": comps = [(i, "coordinate-" + ch) for i, ch in enumerate(o.comps)]
            else:              comps = [(0, TAG[k])]
            for comp, tag in comps:
                s = Sc(); s.idx = len(out); s.ci = ci; s.oi = oi; s.comp = comp; s.obs = o; s.cl = c; s.tag = tag
                s.frm = o.frm if k != "coord" else None
                s.to = o.bs if k == "angle" else o.to
                s.fs = o.fs if k == "angle" else None
                s.sigma = o.stdev
                pts = [p for p in (o.frm, o.to, o.bs, o.fs) if p is not None]
                if k in ("direction", "distance", "angle", "azimuth"): s.needs = [(p, "xy") for p in pts]
                elif k == "s-distance":                               s.needs = [(p, c2) for p in pts for c2 in ("xy", "z")]
                elif k == "z-angle":     # LocalRevision::z_angle deliberately asks for known xy only (test_xy)
                    s.needs = [(p, c2) for p in pts for c2 in ("xy?", "z")]
                elif k == "dh":                                       s.needs = [(p, "z") for p in pts]
                elif k == "vec":   s.needs = [(p, "z" if comp == 2 else "xy") for p in pts]
                elif k == "coord": s.needs = [(o.to, "z" if tag.endswith("z") else "xy")]
                out.append(s)
    return out


def apply_noise(net):
    """deterministic noise +-NOISE*sigma on every scalar (sigma: stdev attribute or sqrt of the cov diagonal)"""
    k = 0
    for c in net.clusters:
        row = 0
        for o in c.obs:
            n = o.dim()
            e = []
            for j in range(n):
                sg = o.stdev if o.stdev is not None else math.sqrt(c.cov[1][row + j][0])
                unit = 1e-4 if o.kind in ("direction", "angle", "azimuth", "z-angle") else 1e-3
                e.append(tm_sign(k) * NOISE * sg * unit); k += 1
            row += n
            o.err = tuple(e) if n > 1 or o.kind in ("vec", "coord") else e[0]


# ------------------------------------------------------------------ reference model
def approx_coords(net):
    """coordinates of the points as gama-local holds them after reading the input: the <point>
    records, then every <point> inside a <coordinates> cluster in document order -- observed
    (control) coordinates ARE the point's coordinates (GKFparser::process_point)"""
    A = {}
    for p in net.points:
        x = y = z = None
        if p.x is not None and p.y is not None and p.ax is not False and p.xy is not None:
            dx, dy = p.ax if isinstance(p.ax, tuple) else (0.0, 0.0)
            x, y = p.x + dx, p.y + dy
        if p.z is not None and p.az is not False and p.zs is not None:
            z = p.z + (p.az if isinstance(p.az, float) else 0.0)
        A[p.id] = [x, y, z]
    for c in net.clusters:
        if c.kind != "coordinates": continue
        for o in c.obs:
            for ch, v in zip(o.comps, o.val):
                A[o.to]["xyz".index(ch)] = float(fnum(v, 10))
    return {k: tuple(v) for k, v in A.items()}


def _usable(net):
    """(id, 'xy'|'z') -> True for every coordinate group that has a status and a value in the input"""
    u = {}
    for p in net.points:
        if p.xy is not None: u[(p.id, "xy")] = (p.x is not None and p.y is not None and p.ax is not False)
        if p.zs is not None: u[(p.id, "z")] = (p.z is not None and p.az is not False)
    for c in net.clusters:
        if c.kind == "coordinates":
            for o in c.obs:
                for g in (("xy",) if "x" in o.comps else ()) + (("z",) if "z" in o.comps else ()):
                    if (o.to, g) in u: u[(o.to, g)] = True
    return u


def _wrap(r):
    while r > math.pi: r -= 2 * math.pi
    while r <= -math.pi: r += 2 * math.pi
    return r


def orientation0(net, c, usable):
    """documented approximate orientation of a direction set: median of (bearing - direction) over the
    targets with known coordinates; radians in [0, 2pi).  None if there is no estimate."""
    XY = approx_coords(net)
    sz = []
    for o in c.obs:
        if o.kind == "direction" and usable.get((o.frm, "xy")) and usable.get((o.to, "xy")):
            sz.append(_wrap(bearing(XY[o.frm], XY[o.to]) - float(fnum(o.val, 10)) * G2R))
    if not sz: return None
    sz.sort(); n = len(sz)
    a, b = sz[(n - 1) // 2], sz[n // 2]
    l1 = a if (abs(b - a) > math.pi / 2 and n < 3) else (a + b) / 2
    return l1 + 2 * math.pi if l1 < 0 else l1


def misclosure(net, s, usable, z0cache):
    """positional misclosure in mm: (doc rule, code rule).  They differ for angles only
    (manual: the longer arm; TestAbsTermVisitor: the arm to the first target)."""
    XYZ = z0cache.get("approx") or approx_coords(net)
    z0cache["approx"] = XYZ
    o = s.obs; k = o.kind; v = float(fnum(s.value(), 10))
    if k == "distance":
        m = abs(v - hdist(XYZ[o.frm], XYZ[o.to])) * 1000; return m, m
    if k == "s-distance":
        a, b = XYZ[o.frm], XYZ[o.to]
        d0 = hdist(a, b); dz = a[2] - b[2]
        m = abs(math.sqrt(dz * dz + d0 * d0) - v) * 1000; return m, m
    if k == "dh":
        m = abs(v - (XYZ[o.to][2] - XYZ[o.frm][2])) * 1000; return m, m
    if k == "vec":
        i = s.comp
        m = abs((XYZ[o.to][i] - XYZ[o.frm][i]) - v) * 1000; return m, m
    if k == "coord":
        i = "xyz".index(s.tag[-1])
        m = abs(XYZ[o.to][i] - v) * 1000; return m, m
    if k == "direction":
        if id(s.cl) not in z0cache: z0cache[id(s.cl)] = orientation0(net, s.cl, usable)
        z0 = z0cache[id(s.cl)]
        b = _wrap(v * G2R - (bearing(XYZ[o.frm], XYZ[o.to]) - z0))
        m = abs(b) * hdist(XYZ[o.frm], XYZ[o.to]) * 1000; return m, m
    if k == "azimuth":
        b = _wrap(v * G2R - bearing(XYZ[o.frm], XYZ[o.to]))
        m = abs(b) * hdist(XYZ[o.frm], XYZ[o.to]) * 1000; return m, m
    if k == "angle":
        b = _wrap(v * G2R - (bearing(XYZ[o.frm], XYZ[o.fs]) - bearing(XYZ[o.frm], XYZ[o.bs])))
        dl, dr = hdist(XYZ[o.frm], XYZ[o.bs]), hdist(XYZ[o.frm], XYZ[o.fs])
        return abs(b) * max(dl, dr) * 1000, abs(b) * dl * 1000
    if k == "z-angle":
        a, c = XYZ[o.frm], XYZ[o.to]
        d0 = hdist(a, c); dz = c[2] - a[2]
        b = _wrap(v * G2R - math.atan2(d0, dz))
        m = abs(b) * math.sqrt(d0 * d0 + dz * dz) * 1000; return m, m
    raise ValueError(k)


def _row_xy(net, s, pid):
    """direction (not magnitude) of the derivative of s with respect to (x, y) of point pid; None if zero"""
    XY = approx_coords(net)
    o = s.obs; k = o.kind
    def along(a, b):
        d = hdist(XY[a], XY[b]); return ((XY[b][0] - XY[a][0]) / d, (XY[b][1] - XY[a][1]) / d, d)
    if k in ("distance", "s-distance", "z-angle"):
        other = o.to if pid == o.frm else o.frm
        ux, uy, d = along(other, pid); return (ux, uy)
    if k in ("direction", "azimuth"):
        other = o.to if pid == o.frm else o.frm
        ux, uy, d = along(other, pid); return (-uy / d, ux / d)
    if k == "angle":
        if pid == o.frm:
            u1 = along(o.frm, o.bs); u2 = along(o.frm, o.fs)
            return (-u2[1] / u2[2] + u1[1] / u1[2], u2[0] / u2[2] - u1[0] / u1[2])
        ux, uy, d = along(o.frm, pid); return (-uy / d, ux / d)
    if k in ("vec", "coord"):
        return (1.0, 0.0) if s.tag in ("dx", "coordinate-x") else (0.0, 1.0)
    return None


def revise(net, S, usable0, dead0):
    """structural revision to a fixpoint.  dead0: idx -> reason for observations already excluded.
    returns (dead: idx -> reason, lost: (id,grp) -> reason)"""
    usable = dict(usable0); dead = dict(dead0); lost = {}
    status = {}
    for p in net.points:
        status[(p.id, "xy")] = p.xy; status[(p.id, "z")] = p.zs
    for g, ok in usable.items():
        if not ok and status[g] in ("adj", "con"): lost[g] = "missing"
    while True:
        changed = False
        for s in S:
            if s.idx in dead: continue
            for g in s.needs:
                ok = usable0.get((g[0], "xy"), False) if g[1] == "xy?" else usable.get(g, False)
                if not ok:
                    dead[s.idx] = "point:%s/%s" % (g[0], g[1].rstrip("?")); changed = True; break
        for c in net.clusters:
            dirs = [s for s in S if s.cl is c and s.tag == "direction" and s.idx not in dead]
            if dirs and len({s.to for s in dirs}) < 2:
                for s in dirs: dead[s.idx] = "single-direction"
                changed = True
        for g in list(usable):
            if not usable[g] or status[g] not in ("adj", "con"): continue
            touching = [s for s in S if s.idx not in dead and (g in s.needs or (g[0], g[1] + "?") in s.needs)]
            if g[1] == "z":
                if not touching:
                    usable[g] = False; lost[g] = "undetermined"; changed = True
                continue
            rows = []; own = {}
            for s in touching:
                r = _row_xy(net, s, g[0])
                if r is None: continue
                if s.tag == "direction" and s.frm == g[0]: own.setdefault(id(s.cl), []).append(r)
                else: rows.append(r)
            for rs in own.values():      # the orientation unknown of the point's own set absorbs one row
                rows += [(r[0] - rs[0][0], r[1] - rs[0][1]) for r in rs[1:]]
            rows = [r for r in rows if math.hypot(*r) > 0]
            rank2 = False
            for r in rows[1:]:
                if abs(rows[0][0] * r[1] - rows[0][1] * r[0]) > 1e-9 * math.hypot(*rows[0]) * math.hypot(*r):
                    rank2 = True; break
            if not rank2:
                usable[g] = False; lost[g] = "undetermined"; changed = True
        if not changed: break
    return dead, lost


class Ref:
    pass


def reference(net):
    """reference analysis of an input (independent of the algorithm)"""
    R = Ref(); R.S = scalars(net); R.usable0 = _usable(net)
    R.dead0, R.lost0 = revise(net, R.S, R.usable0, {})
    tol = float(net.params.get("tol-abs", 1000)); sa = float(net.params.get("sigma-apr", 10))
    R.tol = tol; R.sa = sa; R.mis = {}; z0 = {}
    for s in R.S:
        if s.idx not in R.dead0:
            R.mis[s.idx] = misclosure(net, s, R.usable0, z0)
    # alphabet guard: a misclosure within 1e-6 (relative) of tol-abs without being equal to it is
    # ill-defined in floating point; such observations are not judged by clause 2
    R.ambig = {i for i, m in R.mis.items() if m[0] != tol and abs(m[0] / tol - 1.0) < 1e-6}
    R.exceed_doc = {i for i, m in R.mis.items() if m[0] > tol}
    R.exceed_code = {i for i, m in R.mis.items() if m[0] > tol}   # since fix 5a15cfe the code follows the documented rule (longer arm)
    # model of the suspected defect D10: the removal loop sees the homogenised right-hand side of the
    # angular types (scaled by sigma-apr/stdev) once the raw test has raised the flag
    R.d10 = set()
    if R.exceed_code:
        for i, m in R.mis.items():
            s = R.S[i]
            f = sa / s.sigma if (s.tag in ANGULAR and s.sigma) else 1.0
            if m[0] * f > tol: R.d10.add(i)
    # observations that are structurally dead only because their point is removed LATER than the
    # listing is printed (null_space path) can still appear in the table: keep their misclosures
    R.mis_dead = {}
    for s in R.S:
        if s.idx in R.dead0 and all(R.usable0.get((g[0], g[1].rstrip("?")), False) for g in s.needs):
            try: R.mis_dead[s.idx] = misclosure(net, s, R.usable0, z0)
            except (TypeError, ZeroDivisionError): pass
    return R


def closure(net, R, abs_set):
    dead0 = dict(R.dead0)
    for i in abs_set:
        if i not in dead0: dead0[i] = "abs-term"
    return revise(net, R.S, R.usable0, dead0)


# ------------------------------------------------------------------ blunders
def resolve_target(net, names, target):
    """-> (Obs, list of component indices or [None]).  name[.components] addresses a named observation of
    the template; @k the k-th scalar of the input in document order (one component of a vector /
    coordinate record), @k* the whole record that contains scalar k"""
    if target.startswith("@"):
        s = scalars(net)[int(target[1:].rstrip("*"))]
        o = s.obs
        if o.kind in ("vec", "coord"): return o, (list(range(o.dim())) if target.endswith("*") else [s.comp])
        return o, [None]
    nm, _, comps = target.partition(".")
    o = names[nm]
    if o.kind in ("vec", "coord"):
        return o, [(o.comps if o.kind == "coord" else "xyz").index(ch) for ch in comps]
    return o, [None]


def defines_approx(net, o, idx):
    """does the coordinates record o (components idx) define the approximate coordinates, i.e. is it the
    last coordinates record of its point for these components in document order?"""
    if o.kind != "coord": return False
    last = {}
    for c in net.clusters:
        if c.kind != "coordinates": continue
        for x in c.obs:
            if x.to == o.to:
                for ch in x.comps: last[ch] = x
    flags = {last[o.comps[i]] is o for i in idx}
    if len(flags) != 1: raise RuntimeError("mixed coordinate record %s" % o.to)
    return flags.pop()


def set_blunder(net, names, target, f, tol, nominal=False):
    """give the addressed observation (component) an error whose REFERENCE positional misclosure is f*tol.
    Targets that define the approximate coordinates (the last coordinates record of a point) have no
    misclosure of their own: their error f*tol shifts the approximate coordinates instead."""
    o, idx = resolve_target(net, names, target)
    want = f * tol
    shift = defines_approx(net, o, idx)
    def put(e):
        if idx[0] is None: o.err = e
        else:
            t = list(o.err)
            for i in idx: t[i] = e
            o.err = tuple(t)
        fill_values(net)
    if shift or f == 1.0:
        put(want / 1000.0); return
    if nominal:          # error of positional size f*tol relative to the TRUE orientation / coordinates, no solve
        if o.kind != "direction": raise ValueError("nominal blunders are defined for directions")
        XY = approx_coords(net)
        put(o.err + want / (hdist(XY[o.frm], XY[o.to]) * 1000.0) * R2G); return      # on top of the noise
    def mis(e):
        put(e)
        u = _usable(net)
        ms = [misclosure(net, x, u, {})[0] for x in scalars(net) if x.obs is o and (idx[0] is None or x.comp in idx)]
        return max(ms)
    if o.kind in ("direction", "angle", "azimuth", "z-angle"):
        XY = approx_coords(net)
        a, b = XY[o.frm], XY[o.to or o.bs]
        d = hdist(a, b)
        if o.kind == "z-angle": d = math.sqrt(d * d + (a[2] - b[2]) ** 2)
        e0 = want / (d * 1000.0) * R2G
    else:
        e0 = want / 1000.0
    nominal_e = e0
    e1 = e0 * 1.5
    g0, g1 = mis(e0) - want, mis(e1) - want
    for _ in range(60):
        if abs(g1) <= 1e-8 * want: break
        if g1 == g0: break
        e2 = e1 - g1 * (e1 - e0) / (g1 - g0)
        e0, g0 = e1, g1
        e1 = e2; g1 = mis(e1) - want
    if abs(g1) > 2e-7 * want:                 # values are written with 10 decimals (3.5e-7 mm over 224 m)
        if target.startswith("@") and o.kind == "direction":
            # position family: a direction whose error is of the size of the noise can stay the median of
            # its set (misclosure 0 whatever the error): the size f*tol is not attainable, the error of
            # nominal size is used (the oracle always judges by the reference misclosure actually present)
            put(nominal_e); return
        raise RuntimeError("blunder solve failed for %s f=%s tol=%s (residual %g)" % (target, f, tol, g1))


# ------------------------------------------------------------------ cases
def case_str(tpl, defects, tol, sa):
    return "%s|%s|tol=%g|sa=%g" % (tpl, "+".join(defects) if defects else "-", tol, sa)


def parse_case(cs):
    tpl, d, t, s = cs.split("|")
    return tpl, tuple(x for x in d.split("+") if x != "-"), float(t.split("=")[1]), float(s.split("=")[1])


def build_case(cs):
    tpl, defects, tol, sa = parse_case(cs)
    net, names = build_template(tpl)
    net.params["sigma-apr"] = sa; net.params["tol-abs"] = tol
    for d in defects:
        if d.startswith("S:"): add_struct(net, names, d[2:])
    apply_noise(net)
    base, core, rot = tpl_parts(tpl)
    if base in ("DP", "DF"):
        for k in range(len(core.split(".")[1])): names["r%d" % k].err = D_NOISE[k] * 10.0 * 1e-4
    fill_values(net)
    if rot:                                  # position family: rotate the cluster list of the complete input
        net.clusters = net.clusters[rot:] + net.clusters[:rot]
    for d in defects:
        if d[:2] in ("B:", "N:"):            # B: reference misclosure == f*tol (solved); N: nominal size
            _, tg, f = d.split(":")
            set_blunder(net, names, tg, float(f), tol, nominal=(d[0] == "N"))
    fill_values(net)
    return net


def enumerate_cases(tier):
    """the complete list of case strings of a tier (deterministic order).
    "full" regime (thorough, templates T2.0 / T3 / TL): every single defect x tol-abs {10,1000} x
      sigma-apr {1,10,100}; blunder pairs of all six sizes (T3: four sizes) at all (tol,sa); structural x
      blunder {0.9,1.1} at all (tol,sa); structural pairs at (1000,10) and (10,1).
    "light" regime (quick; thorough on the placements T2.1, T2.2): blunder singles at all (tol,sa);
      structural singles at (1000,10) and (10,100); blunder pairs {0.9,1.1} at (10,10) and (1000,100)
      (T3: (10,10) only); structural x blunder 1.1 at (10,10); structural pairs at (1000,10)."""
    thorough = tier == "thorough"
    out = []
    tpls = ["T2.0", "T3", "TL"] + (["T2.1", "T2.2"] if thorough else [])
    for tpl in tpls:
        base = tpl.split(".")[0]
        structs = ["S:" + s for s in STRUCT[base]]
        full = thorough and tpl in ("T2.0", "T3", "TL")
        if full: pf = F_SIZES if base != "T3" else (0.9, 0.999, 1.001, 1.1)
        else:    pf = (0.9, 1.1)
        for tol in (10.0, 1000.0):
            blun = [(tg, f) for tg in TARGETS[base] for f in F_SIZES]
            if tol == 1000.0: blun += [(tg, 1.0) for tg in EXACT[base]]
            for sa in (1.0, 10.0, 100.0):
                ts = (tol, sa)
                out.append(case_str(tpl, (), tol, sa))
                for tg, f in blun: out.append(case_str(tpl, ("B:%s:%g" % (tg, f),), tol, sa))
                if full or ts in ((1000.0, 10.0), (10.0, 100.0)):
                    for d in structs: out.append(case_str(tpl, (d,), tol, sa))
                pb = [(tg, f) for tg, f in blun if f in pf]
                if full or ts == (10.0, 10.0) or (ts == (1000.0, 100.0) and base != "T3"):
                    for i in range(len(pb)):
                        for j in range(i + 1, len(pb)):
                            if pb[i][0].split(".")[0] == pb[j][0].split(".")[0]: continue
                            out.append(case_str(tpl, ("B:%s:%g" % pb[i], "B:%s:%g" % pb[j]), tol, sa))
                if full or ts == (10.0, 10.0):
                    sb = [(tg, f) for tg, f in blun if f in ((0.9, 1.1) if full else (1.1,))]
                    for s in structs:
                        for tg, f in sb:
                            out.append(case_str(tpl, (s, "B:%s:%g" % (tg, f)), tol, sa))
                if ts == (1000.0, 10.0) or (full and ts == (10.0, 1.0)):
                    for i in range(len(structs)):
                        for j in range(i + 1, len(structs)):
                            out.append(case_str(tpl, (structs[i], structs[j]), tol, sa))
    return out + enumerate_positions(tier) + enumerate_dsets(tier)


def enumerate_positions(tier):
    """POSITION family (sigma-apr 10, all angular stdevs 10): templates T2.0 / T3 / TL (thorough: T2.1, T2.2
    as well), the cluster list rotated so that every cluster is the first / the last one of the input;
    for every rotation: no defect, a blunder in EVERY scalar of the input in turn (the last one included;
    vectors and coordinate records: every single component and the whole record), sizes {0.9, 1.1}
    (thorough: all six), tol-abs {10, 1000}; every structural defect at every rotation of the input that
    contains it (tol-abs 1000; thorough: 10 as well)."""
    thorough = tier == "thorough"
    out = []
    for core in ["T2.0", "T3", "TL"] + (["T2.1", "T2.2"] if thorough else []):
        base = core.split(".")[0]
        net, _ = build_template(core)
        ncl = len(net.clusters)
        S = scalars(net)                 # rotation permutes the scalars, their number per record stays
        for rot in range(ncl):
            tpl = "%s~r%d" % (core, rot)
            rn = net.copy(); rn.clusters = rn.clusters[rot:] + rn.clusters[:rot]
            RS = scalars(rn)
            for tol in (10.0, 1000.0):
                out.append(case_str(tpl, (), tol, 10.0))
                for f in (F_SIZES if thorough else (0.9, 1.1)):
                    for s in RS:
                        out.append(case_str(tpl, ("B:@%d:%g" % (s.idx, f),), tol, 10.0))
                        if s.obs.dim() > 1 and s.comp == 0:
                            out.append(case_str(tpl, ("B:@%d*:%g" % (s.idx, f),), tol, 10.0))
        for d in STRUCT[base]:
            n2, _ = build_template(core); add_struct(n2, _, d)
            for rot in range(len(n2.clusters)):
                for tol in ((1000.0, 10.0) if thorough else (1000.0,)):
                    out.append(case_str("%s~r%d" % (core, rot), ("S:" + d,), tol, 10.0))
    return out


def enumerate_dsets(tier):
    """direction sets with REPEATED targets (templates DP / DF, sigma-apr 10, stdev 10): every target
    pattern of d_patterns(tier) x tol-abs {10, 1000} x (no blunder | a blunder at every position of the
    set, sizes {0.9, 1.1} (thorough: all six) | nominal blunders at every pair of positions, sizes
    (1.1, 1.1) (thorough: {0.9, 1.1}^2))"""
    thorough = tier == "thorough"
    out = []
    for base in ("DP", "DF"):
        for w in d_patterns(tier):
            tpl = "%s.%s" % (base, w)
            for tol in (10.0, 1000.0):
                out.append(case_str(tpl, (), tol, 10.0))
                for f in (F_SIZES if thorough else (0.9, 1.1)):
                    for k in range(len(w)):
                        out.append(case_str(tpl, ("B:r%d:%g" % (k, f),), tol, 10.0))
                pf = [(0.9, 0.9), (0.9, 1.1), (1.1, 0.9), (1.1, 1.1)] if thorough else [(1.1, 1.1)]
                for i in range(len(w)):
                    for j in range(i + 1, len(w)):
                        for fi, fj in pf:
                            out.append(case_str(tpl, ("N:r%d:%g" % (i, fi), "N:r%d:%g" % (j, fj)), tol, 10.0))
    return out


# ------------------------------------------------------------------ text output readers
def read_text(text):
    """-> dict(removed=[(id, reason)], outlying=[row dicts] or None, flag_removed=bool, counts={...})"""
    T = {"removed": [], "outlying": None, "removed_msg": False, "counts": {}}
    L = text.splitlines()
    i = 0
    while i < len(L):
        ln = L[i]
        if ln.startswith("Removed points and coordinates") and not T["removed"]:
            i += 3
            while i < len(L) and L[i].strip():
                t = L[i].split()
                T["removed"].append((t[0], " ".join(t[1:]))); i += 1
            continue
        if ln.startswith("Outlying absolute terms in project equations"):
            rows = []
            i += 1
            while i < len(L) and "term ==" not in L[i]: i += 1
            i += 2
            while i < len(L) and L[i].strip():
                m = re.match(r"^\s*(\d+)\s+(\S+)\s+(\S+)\s*$", L[i])
                if m and i + 1 < len(L):
                    m2 = re.match(r"^\s*(\S+)\s+angle\s+(\S+)\s+(\S+)\s*$", L[i + 1])
                    if m2:
                        rows.append({"i": int(m.group(1)), "from": m.group(2), "to": m.group(3), "fs": m2.group(1),
                                     "tag": "angle", "val": float(m2.group(2)), "b": float(m2.group(3))})
                        i += 2; continue
                m = re.match(r"^\s*(\d+)\s+(\S+)\s+(x|y|z)\s+(\S+)\s+(\S+)\s*$", L[i])
                if m:
                    rows.append({"i": int(m.group(1)), "from": None, "to": m.group(2), "fs": None,
                                 "tag": "coordinate-" + m.group(3), "val": float(m.group(4)), "b": float(m.group(5))})
                    i += 1; continue
                m = re.match(r"^\s*(\d+)\s+(\S+)\s+(\S+)\s+(dir\.|dist\.|azim\.|h dif|slope|zen\.|x dif|y dif|z dif|x|y|z)\s+(\S+)\s+(\S+)\s*$", L[i])
                if m:
                    rows.append({"i": int(m.group(1)), "from": m.group(2), "to": m.group(3), "fs": None,
                                 "tag": TXT_TYPE[m.group(4)], "val": float(m.group(5)), "b": float(m.group(6))})
                else:
                    rows.append({"unparsed": L[i]})
                i += 1
            T["outlying"] = rows
            continue
        if ln.startswith("Observations with outlying absolute terms removed"):
            T["removed_msg"] = True
        m = re.match(r"^(Number of directions|Number of angles|Number of distances|Coordinates|Leveling differences|"
                     r"Zenith angles|Slope distances|Total of observations|Number of project equations)\s*:\s*(\d+)", ln)
        if m: T["counts"][m.group(1)] = int(m.group(2))
        i += 1
    return T


HTML_TAG = {"direction": "direction", "distance": "distance", "angle": "angle", "azimuth": "azimuth",
            "s-distance": "slope-distance", "z-angle": "zenith-angle", "dh": "height-diff"}


def read_html_rejected(html):
    """rows of the table 'rejected_observations' of the --html output -> list of dicts
    (tag, from, to, fs, val) or {"unparsed": text}; [] when the table is absent"""
    import html as _h
    m = re.search(r"<table id='rejected_observations'>(.*?)</table>", html or "", re.S)
    rows = []
    if not m: return rows
    for cell in re.findall(r"<tr>\s*<td[^>]*>(.*?)</td>\s*</tr>", m.group(1), re.S):
        t = _h.unescape(cell).strip()
        e = re.match(r"^<([a-z-]+)\s+(.*?)/>$", t, re.S)
        if e and e.group(1) in HTML_TAG:
            a = dict(re.findall(r'([a-z_-]+)="([^"]*)"', e.group(2)))
            try:
                if e.group(1) == "angle":
                    rows.append({"tag": "angle", "from": a["from"], "to": a["bs"], "fs": a["fs"], "val": float(a["val"])})
                else:
                    rows.append({"tag": HTML_TAG[e.group(1)], "from": a["from"], "to": a["to"], "fs": None, "val": float(a["val"])})
                continue
            except (KeyError, ValueError):
                pass
        e = re.match(r"^<!--\s*from='([^']*)'\s+to='([^']*)'\s+diff\s+([xyz])\s*=\s*(\S+)\s*--!?>$", t)
        if e:
            rows.append({"tag": "d" + e.group(3), "from": e.group(1), "to": e.group(2), "fs": None, "val": float(e.group(4))}); continue
        e = re.match(r"^<!--\s*(\S+)\s+([xyz])\s*=\s*(\S+)\s*--!?>$", t)
        if e:
            rows.append({"tag": "coordinate-" + e.group(2), "from": None, "to": e.group(1), "fs": None, "val": float(e.group(3))}); continue
        rows.append({"unparsed": t})
    return rows


TXT_COUNT = {"Number of directions": ("directions",), "Number of angles": ("angles",), "Number of distances": ("distances",),
             "Coordinates": ("xyz-coords",), "Leveling differences": ("h-diffs",), "Zenith angles": ("z-angles",),
             "Slope distances": ("s-dists",)}
XML_COUNT = {"distances": ("distance",), "directions": ("direction",), "angles": ("angle",),
             "xyz-coords": ("coordinate-x", "coordinate-y", "coordinate-z"), "h-diffs": ("height-diff",),
             "z-angles": ("zenith-angle",), "s-dists": ("slope-distance",), "vectors": ("dx", "dy", "dz"),
             "azimuths": ("azimuth",)}


def xml_key(d):
    t = d["tag"]
    if t == "angle": return (t, d.get("from"), d.get("left"), d.get("right"))
    if t.startswith("coordinate-"): return (t, None, d.get("id"), None)
    return (t, d.get("from"), d.get("to"), None)


def match_xml(S, robs):
    """multiset matching of input scalars and XML observations by key and observed value.
    returns (present: idx -> position in robs, phantom: [positions])"""
    pool = {}
    for pos, d in enumerate(robs):
        pool.setdefault(xml_key(d), []).append(pos)
    present = {}
    for s in S:
        cand = pool.get(s.key(), [])
        v = s.value()
        for pos in cand:
            ov = robs[pos].get("obs")
            if ov is None: continue
            dv = abs(ov - v)
            if s.tag in ANGULAR: dv = min(dv, abs(dv - 400.0))
            if dv < 5e-9:
                present[s.idx] = pos; cand.remove(pos); break
    phantom = [p for lst in pool.values() for p in lst]
    return present, phantom


# ------------------------------------------------------------------ deletion
def reduce_net(net, S, drop_obs, drop_pts):
    """the input with exactly these scalars / coordinate groups deleted; None when a partial
    vector / coordinate record cannot be written in the input format"""
    n = net.copy()
    drop = {S[i].ident() for i in drop_obs}
    newc = []
    for ci, c in enumerate(n.clusters):
        keep_rows = []; obs = []; row = 0
        for oi, o in enumerate(c.obs):
            dm = o.dim()
            gone = [(ci, oi, k) in drop for k in range(dm)]
            if all(gone): pass
            elif any(gone): return None
            else:
                obs.append(o); keep_rows += list(range(row, row + dm))
            row += dm
        if not obs: continue
        if c.cov is not None and len(keep_rows) != row:
            band, rows = c.cov
            def at(i, j):
                if j < i: i, j = j, i
                return rows[i][j - i] if j - i < len(rows[i]) else 0.0
            dim = len(keep_rows)
            b2 = 0
            for a in range(dim):
                for b in range(a, dim):
                    if at(keep_rows[a], keep_rows[b]) != 0.0: b2 = max(b2, b - a)
            c.cov = (b2, [[at(keep_rows[a], keep_rows[b]) for b in range(a, min(dim, a + b2 + 1))] for a in range(dim)])
        c.obs = obs; newc.append(c)
    n.clusters = newc
    pts = []
    # only a zenith angle may go on using the coordinates of a point whose xy was removed
    used = {q for c in n.clusters for o in c.obs if o.kind == "z-angle" for q in (o.frm, o.to)}
    for p in n.points:
        if (p.id, "xy") in drop_pts: p.xy = "fix" if (p.id in used and p.ax is not False) else None
        if (p.id, "z") in drop_pts: p.zs = None
        if p.xy is None and p.zs is None: continue
        pts.append(p)
    n.points = pts
    return n


# ------------------------------------------------------------------ comparison of two results
def compare_results(Ra, Rb, worst):
    """list of (field, detail) differences between two parsed results; worst: dict of max deviations"""
    D = []
    def w(k, v):
        if v > worst.get(k, 0.0): worst[k] = v
    for f in ("dof", "equations", "unknowns", "defect"):
        if getattr(Ra, f) != getattr(Rb, f): D.append((f, "%s vs %s" % (getattr(Ra, f), getattr(Rb, f))))
    if set(Ra.adjusted) != set(Rb.adjusted):
        D.append(("adjusted-points", "%s vs %s" % (sorted(Ra.adjusted), sorted(Rb.adjusted)))); return D
    for pid, a in Ra.adjusted.items():
        b = Rb.adjusted[pid]
        if set(a) != set(b): D.append(("adjusted-coords", "%s: %s vs %s" % (pid, sorted(a), sorted(b)))); continue
        for c in a:
            if c == "id": continue
            dv = abs(a[c] - b[c]); w("coord_m", dv)
            if dv > 2e-6: D.append(("coordinates", "%s.%s %.9f vs %.9f" % (pid, c, a[c], b[c])))
    scale = max(abs(Ra.pvv), abs(Rb.pvv), 1e-12)
    dv = abs(Ra.pvv - Rb.pvv) / scale; w("pvv_rel", dv if scale > 1e-6 else 0.0)
    if abs(Ra.pvv - Rb.pvv) > 1e-4 * scale + 1e-7: D.append(("pvv", "%r vs %r" % (Ra.pvv, Rb.pvv)))
    for k in ("apriori", "aposteriori"):
        a, b = Ra.sd.get(k), Rb.sd.get(k)
        if a is None or b is None or abs(a - b) > 1e-4 * max(abs(a), abs(b)) + 1e-6:
            D.append(("sd-" + k, "%r vs %r" % (a, b)))
    if len(Ra.obs) != len(Rb.obs):
        D.append(("obs-count", "%d vs %d" % (len(Ra.obs), len(Rb.obs)))); return D
    for i, (a, b) in enumerate(zip(Ra.obs, Rb.obs)):
        if xml_key(a) != xml_key(b) or abs(a["obs"] - b["obs"]) > 5e-9:
            D.append(("obs-order", "#%d %s vs %s" % (i, xml_key(a), xml_key(b)))); return D
        ang = a["tag"] in ANGULAR
        ra, rb = a["adj"] - a["obs"], b["adj"] - b["obs"]
        dv = abs(ra - rb)
        if ang: dv = min(dv, abs(dv - 400.0))
        w("resid_gon" if ang else "resid_m", dv)
        if dv > (2e-6 if ang else 2e-6): D.append(("residuals", "#%d %s %.3e vs %.3e" % (i, xml_key(a), ra, rb)))
        for f in ("stdev", "qrr", "f"):
            if a.get(f) is None and b.get(f) is None: continue
            if a.get(f) is None or b.get(f) is None: D.append(("obs-" + f, "#%d missing" % i)); continue
            lim = {"stdev": 1e-4 * max(abs(a[f]), abs(b[f])) + 1e-6, "qrr": 2e-3, "f": 2e-2}[f]
            if abs(a[f] - b[f]) > lim: D.append(("obs-" + f, "#%d %s %r vs %r" % (i, xml_key(a), a[f], b[f])))
    oa = {o[0] + "#%d" % i: o[2] for i, o in enumerate(Ra.orientations)}
    ob = {o[0] + "#%d" % i: o[2] for i, o in enumerate(Rb.orientations)}
    if [o[0] for o in Ra.orientations] != [o[0] for o in Rb.orientations]:
        D.append(("orientations", "%s vs %s" % ([o[0] for o in Ra.orientations], [o[0] for o in Rb.orientations])))
    else:
        for k in oa:
            dv = abs(oa[k] - ob[k]); dv = min(dv, abs(dv - 400.0))
            if dv > 2e-6: D.append(("orientations", "%s %r vs %r" % (k, oa[k], ob[k])))
    if Ra.cov_dim == Rb.cov_dim and Ra.cov_band == Rb.cov_band and Ra.orig_index == Rb.orig_index:
        for x, y in zip(Ra.cov_flt, Rb.cov_flt):
            if abs(x - y) > 1e-4 * max(abs(x), abs(y)) + 1e-7:
                D.append(("cov-mat", "%r vs %r" % (x, y))); break
    elif Ra.cov_dim != Rb.cov_dim:
        D.append(("cov-dim", "%d vs %d" % (Ra.cov_dim, Rb.cov_dim)))
    else:
        # same unknowns in a different internal order: compare the diagonal through the point lists
        da = sorted(Ra.cov_flt[k] for k in _diag_pos(Ra)); db = sorted(Rb.cov_flt[k] for k in _diag_pos(Rb))
        for x, y in zip(da, db):
            if abs(x - y) > 1e-4 * max(abs(x), abs(y)) + 1e-7:
                D.append(("cov-diag", "%r vs %r" % (x, y))); break
    return D


def _diag_pos(R):
    pos = []; k = 0
    for i in range(R.cov_dim):
        pos.append(k); k += min(R.cov_dim - i, R.cov_band + 1)
    return pos


# ------------------------------------------------------------------ the per-case oracle
def evaluate_run(net, R, run, alg, V, O, html=None):
    """oracles 1 and 2 on one execution.  V: list collecting (sig, detail); O: outcome classes.
    returns (Rx, excluded obs idx set, excluded point groups) or None when the run failed"""
    S = R.S
    if run.rc != 0 or run.xml is None:
        V.append(("C14|run-failed|rc=%s|%s|%s" % (run.rc, alg, R.dclass), "alg=%s stderr=%s stdout-tail=%s" % (alg, run.stderr[-300:], run.stdout[-300:])))
        O.append("run-failed"); return None
    Rx = parse_result(run.xml)
    if Rx.error:
        V.append(("C14|run-failed|%s|%s|%s" % (Rx.error.split(":")[0], alg, R.dclass), "alg=%s %s" % (alg, Rx.error[:300])))
        O.append("run-error-doc"); return None
    T = read_text(run.text or "")
    # ---- participation: input vs XML
    present, phantom = match_xml(S, Rx.obs)
    if phantom:
        V.append(("C14|phantom-observation|%s" % Rx.obs[phantom[0]]["tag"], "alg=%s XML lists an observation that is not in the input: %s" % (alg, Rx.obs[phantom[0]])))
    ex_obs = {s.idx for s in S if s.idx not in present}
    ex_pts = set()
    for p in net.points:
        a = Rx.adjusted.get(p.id, {})
        if p.xy in ("adj", "con") and not ("x" in a or "X" in a): ex_pts.add((p.id, "xy"))
        if p.zs in ("adj", "con") and not ("z" in a or "Z" in a): ex_pts.add((p.id, "z"))
    # ---- the listing of outlying absolute terms
    listed = set()
    rows = T["outlying"] or []
    for r in rows:
        if "unparsed" in r:
            V.append(("C14|abs-term-listing|unreadable-row", "alg=%s %r" % (alg, r["unparsed"]))); continue
        key = (r["tag"], r["from"], r["to"], r["fs"])
        cand = [s for s in S if s.key() == key and s.idx not in listed and (s.idx not in R.dead0 or s.idx in R.mis_dead)]
        hit = None
        for s in cand:
            dv = abs(s.value() - r["val"])
            if s.tag in ANGULAR: dv = min(dv, abs(dv - 400.0))
            if dv < 2e-5: hit = s; break
        if hit is None:
            V.append(("C14|abs-term-listing|row-matches-no-input-observation|%s" % r["tag"], "alg=%s row %s" % (alg, r)))
        else:
            listed.add(hit.idx)
            # the row shows the absolute term itself (mm, angular types cc): it must be the reference misclosure
            mm = (R.mis.get(hit.idx) or R.mis_dead.get(hit.idx) or (None,))[0]
            if mm is not None:
                arm = _arm(net, hit)
                exp = mm if arm is None else mm / 1000.0 / arm * R2G * 1e4
                if abs(abs(r["b"]) - exp) > 3e-5 * exp + 2e-3:
                    V.append(("C14|abs-term-listing|term-value|%s" % hit.tag,
                              "alg=%s %s: listed absolute term %g, reference %.6f (positional misclosure %.6f mm)" % (
                                  alg, hit.label(), r["b"], exp, mm)))
            if hit.idx in R.mis_dead:       # tested before its point was removed: the row must still be justified
                m = R.mis_dead[hit.idx]
                if not m[0] > R.tol:
                    f = R.sa / hit.sigma if (hit.tag in ANGULAR and hit.sigma) else 1.0
                    sub = "depends-on-sigma-apr" if (R.exceed_code and m[1] * f > R.tol) else "spurious"
                    V.append(("C14|abs-term-threshold|%s|%s" % (sub, hit.tag),
                              "alg=%s %s (on a point removed later): listed as outlying with reference positional misclosure %.6f mm, tol-abs %g, sigma-apr %g, stdev %s" % (
                                  alg, hit.label(), m[0], R.tol, R.sa, hit.sigma)))
            if hit.idx not in ex_obs:
                V.append(("C14|abs-term-listing|listed-but-adjusted|%s" % hit.tag, "alg=%s %s is listed as outlying but takes part in the adjustment" % (alg, hit.label())))
    if T["outlying"] is not None and not T["removed_msg"]:
        V.append(("C14|abs-term-listing|no-removal-message", "alg=%s" % alg))
    # ---- oracle 2: excluded for its absolute term  <=>  reference misclosure > tol-abs
    n2 = 0
    for i in sorted(R.mis):
        s = S[i]
        if i in R.ambig: O.append("boundary-ambiguous-skipped"); continue
        want = i in R.exceed_doc
        got = (i in listed) or (i in ex_obs and i not in R.dead0 and _unexplained(net, R, S, i, listed, ex_obs))
        if want == got: continue
        n2 += 1
        if (i in R.exceed_code) != want and got == (i in R.exceed_code):
            sub = "angle-tested-on-first-arm-only"
        elif got == (i in R.d10):
            sub = "depends-on-sigma-apr"
        else:
            sub = "missed" if want else "spurious"
        V.append(("C14|abs-term-threshold|%s|%s" % (sub, s.tag),
                  "alg=%s %s: reference positional misclosure %.6f mm (first-arm rule %.6f), tol-abs %g, sigma-apr %g, stdev %s: %s" % (
                      alg, s.label(), R.mis[i][0], R.mis[i][1], R.tol, R.sa, s.sigma,
                      "kept in the adjustment" if want else "excluded")))
    if T["outlying"] is not None and not rows and not n2:
        V.append(("C14|abs-term-listing|empty-table", "alg=%s the table of outlying absolute terms is printed without rows" % alg))
    # ---- oracle 1: nothing disappears silently
    removed_txt = {}
    for pid, reason in T["removed"]:
        grp = "xyz" if reason.endswith("xyz") else ("xy" if reason.endswith("xy") else ("z" if reason.endswith(" z") else "?"))
        for g in (("xy", "z") if grp == "xyz" else (grp,)):
            removed_txt.setdefault((pid, g), []).append(reason)
    for g in sorted(ex_pts):
        if g not in removed_txt:
            V.append(("C14|silent-exclusion|point|%s|%s" % (g[1], R.lost_pred.get(g, "unpredicted")),
                      "alg=%s point %s: coordinates %s are declared adjustable, are not adjusted, and the point is not in 'Removed points' (XML lists it under %s)" % (
                          alg, g[0], g[1], "fixed" if g[0] in Rx.fixed else ("approximate" if g[0] in Rx.approx else "nothing"))))
    for g in sorted(removed_txt):
        if g not in ex_pts:
            st = {p.id: (p.xy, p.zs) for p in net.points}.get(g[0])
            V.append(("C14|phantom-removal|point|%s" % g[1], "alg=%s %s listed as removed (%s) but status %s / adjusted=%s" % (alg, g, removed_txt[g], st, g[0] in Rx.adjusted)))
    # survivors per direction set, for the single-direction explanation
    for i in sorted(ex_obs):
        s = S[i]
        if i in listed: continue
        if any(g in removed_txt for g in s.needs): continue
        if s.tag == "direction":
            alive = {x.to for x in S if x.cl is s.cl and x.tag == "direction" and x.idx in present}
            others = {x.to for x in S if x.cl is s.cl and x.tag == "direction" and x.idx not in listed
                      and not any(g in removed_txt for g in x.needs)}
            if not alive and len(others) < 2: continue
        V.append(("C14|silent-exclusion|observation|%s" % s.tag,
                  "alg=%s %s is in the input, not in the adjustment, not in the listing of outlying terms, touches no removed point and is not a direction of a set with fewer than two targets" % (alg, s.label())))
    # ---- exclusion set against the reference closure (given the listed observations)
    dead, lost = closure(net, R, listed)
    pred_obs = set(dead); pred_pts = set(lost)
    # rows of the listing == observations given - observations used - structurally unusable observations
    if T["outlying"] is not None or ex_obs:
        n_rows = len([r for r in rows if "unparsed" not in r])
        n_struct = len(pred_obs - listed)
        if n_rows != len(S) - len(present) - n_struct:
            V.append(("C14|abs-term-listing|row-count",
                      "alg=%s %d rows listed; %d observations given, %d used, %d unusable for structural reasons" % (
                          alg, n_rows, len(S), len(present), n_struct)))
    # ---- the table 'rejected observations' of the HTML output: exactly the observations given minus the
    # observations adjusted, each once (rows carry the observation as written by WriteVisitor, rounded values)
    if html is not None:
        hrows = read_html_rejected(html)
        good = [r for r in hrows if "unparsed" not in r]
        for r in hrows:
            if "unparsed" in r: V.append(("C14|html-rejected|unreadable-row", "alg=%s %r" % (alg, r["unparsed"][:120])))
        if len(hrows) != len(S) - len(present):
            V.append(("C14|html-rejected|row-count", "alg=%s %d rows in the table of rejected observations; %d observations given, %d adjusted" % (
                alg, len(hrows), len(S), len(present))))
        need = {}
        for i in ex_obs: need.setdefault(S[i].key(), []).append(S[i])
        seen = {}
        for r in good:
            key = (r["tag"], r["from"], r["to"], r["fs"])
            seen[key] = seen.get(key, 0) + 1
            cand = need.get(key, [])
            if not cand:
                V.append(("C14|html-rejected|row-is-no-excluded-observation|%s" % r["tag"], "alg=%s row %s" % (alg, r)))
            elif seen[key] > len(cand):
                V.append(("C14|html-rejected|listed-more-than-once|%s" % r["tag"], "alg=%s row %s: %d rows, %d excluded observations of this kind" % (alg, r, seen[key], len(cand))))
            else:
                dv = min(min(abs(x.value() - r["val"]), abs(abs(x.value() - r["val"]) - 400.0) if x.tag in ANGULAR else 9e9) for x in cand)
                if dv > 6e-4:
                    V.append(("C14|html-rejected|value|%s" % r["tag"], "alg=%s row %s: no excluded observation of this kind has this value" % (alg, r)))
        for key, cand in sorted(need.items(), key=lambda kv: str(kv[0])):
            if seen.get(key, 0) < len(cand):
                V.append(("C14|html-rejected|excluded-observation-not-listed|%s" % key[0], "alg=%s %s: %d excluded, %d rows" % (alg, cand[0].label(), len(cand), seen.get(key, 0))))
    for i in sorted(ex_obs - pred_obs):
        V.append(("C14|exclusion-set|observation-dropped-without-cause|%s" % S[i].tag, "alg=%s %s" % (alg, S[i].label())))
    for i in sorted(pred_obs - ex_obs):
        V.append(("C14|exclusion-set|unusable-observation-adjusted|%s|%s" % (S[i].tag, dead[i].split(":")[0]), "alg=%s %s (%s)" % (alg, S[i].label(), dead[i])))
    for g in sorted(ex_pts - pred_pts):
        V.append(("C14|exclusion-set|determined-point-removed|%s" % g[1], "alg=%s %s reasons %s" % (alg, g, removed_txt.get(g))))
    for g in sorted(pred_pts - ex_pts):
        V.append(("C14|exclusion-set|undetermined-point-adjusted|%s|%s" % (g[1], lost[g]), "alg=%s %s" % (alg, g)))
    # ---- counts
    by_tag = {}
    for d in Rx.obs: by_tag[d["tag"]] = by_tag.get(d["tag"], 0) + 1
    for k, tags in XML_COUNT.items():
        n = sum(by_tag.get(t, 0) for t in tags)
        if k == "vectors": n = n  # counted per component below
        got = Rx.obs_summary.get(k)
        if k == "vectors":
            nv = len({(d.get("from"), d.get("to")) for d in Rx.obs if d["tag"] in ("dx", "dy", "dz")})
            ndx = by_tag.get("dx", 0)
            if got not in (n, nv, ndx): V.append(("C14|counts|xml-summary|%s" % k, "alg=%s summary %s, list %d components / %d vectors" % (alg, got, n, nv)))
        elif got != n:
            V.append(("C14|counts|xml-summary|%s" % k, "alg=%s summary %s, observation list %d" % (alg, got, n)))
    if Rx.equations != len(Rx.obs):
        V.append(("C14|counts|xml-equations", "alg=%s equations %d, observation list %d" % (alg, Rx.equations, len(Rx.obs))))
    for k, n in T["counts"].items():
        if k == "Total of observations" or k == "Number of project equations":
            if n != len(Rx.obs): V.append(("C14|counts|text-total", "alg=%s %s: %d, XML list %d" % (alg, k, n, len(Rx.obs))))
        else:
            m = sum(by_tag.get(t, 0) for kk in TXT_COUNT[k] for t in XML_COUNT[kk])
            if n != m: V.append(("C14|counts|text-per-type|%s" % TXT_COUNT[k][0], "alg=%s '%s': %d, XML list %d" % (alg, k, n, m)))
    if "Number of project equations" not in T["counts"]:
        V.append(("C14|counts|text-missing", "alg=%s no equation count in the text output" % alg))
    # ---- outcome class: which removal paths fired
    paths = set()
    for pid, reason in T["removed"]:
        paths.add("pt:" + reason.split()[0] + "-" + reason.split()[-1])
    if listed: paths.add("abs-term")
    for i in ex_obs:
        if i in listed: continue
        r = dead.get(i, "?")
        paths.add("obs:" + r.split(":")[0] + ("" if not r.startswith("point") else "-" + r.rsplit("/", 1)[1]))
    act = {S[i].cl for i in present}
    if any(c not in act and c.obs for c in net.clusters if any(s.cl is c for s in S)): paths.add("passive-cluster")
    O.append(",".join(sorted(paths)) or "nothing-excluded")
    return Rx, ex_obs, ex_pts


def _arm(net, s):
    """length (m) that turns the angular absolute term of s into its positional misclosure; None for
    the linear types"""
    o = s.obs; k = o.kind
    if k not in ("direction", "azimuth", "angle", "z-angle"): return None
    XYZ = approx_coords(net)
    if k == "angle": return max(hdist(XYZ[o.frm], XYZ[o.bs]), hdist(XYZ[o.frm], XYZ[o.fs]))
    d = hdist(XYZ[o.frm], XYZ[o.to])
    if k == "z-angle": d = math.sqrt(d * d + (XYZ[o.to][2] - XYZ[o.frm][2]) ** 2)
    return d


def _unexplained(net, R, S, i, listed, ex_obs):
    """is the exclusion of scalar i not explained by the structural closure of the listed observations?"""
    dead, lost = closure(net, R, listed - {i})
    return i not in dead


def defect_class(defects):
    out = []
    for d in defects:
        out.append(d[2:] if d.startswith("S:") else "B-" + (re.match(r"[a-z]+", d.split(":")[1]) or re.match("@", "@")).group(0))
    return "+".join(sorted(out)) or "none"


def run_case(arg):
    """worker: one case string, all algorithms.  returns a dict (picklable)"""
    cs, exe, tmp, algs, num = arg
    out = {"case": cs, "num": num, "viol": [], "outcomes": [], "runs": 0, "reduced": 0, "skipped3": 0, "unclean": 0, "worst": {}, "sample": None}
    try:
        net = build_case(cs)
    except Exception as e:  # construction failure is a harness error, make it loud
        out["viol"].append(("C14|harness|case-construction", "%s: %r" % (cs, e), None)); return out
    gkf = to_gkf(net)
    R = reference(net)
    _, R.lost_pred = closure(net, R, R.exceed_doc)
    R.dclass = defect_class(parse_case(cs)[1])
    tag = "c%d_%d" % (num, os.getpid())
    red_cache = {}
    for alg in algs:
        hp = os.path.join(tmp, tag + alg + ".html")
        run = run_gama(exe, gkf, tmp, tag + alg, args=("--algorithm", alg, "--html", hp), want=("xml", "text"))
        out["runs"] += 1
        html = None
        if os.path.exists(hp):
            with open(hp, "rb") as fh: html = fh.read().decode("utf8", "replace")
            os.unlink(hp)
        V = []; O = []
        ev = evaluate_run(net, R, run, alg, V, O, html=html)
        files = {"input.gkf": gkf}
        if ev is not None:
            Rx, ex_obs, ex_pts = ev
            if ex_obs or ex_pts:
                red = reduce_net(net, R.S, ex_obs, ex_pts)
                if red is None:
                    out["skipped3"] += 1; O[-1] += "|deletion-not-expressible"
                else:
                    g2 = to_gkf(red); files["reduced.gkf"] = g2
                    # the two-run relation is defined when the reduced input is itself free of gross
                    # absolute terms: deleting directions moves the median orientation of their set, and
                    # what is left can exceed tol-abs under the new orientation (two blunders in one set)
                    key = tuple(sorted(ex_obs)), tuple(sorted(ex_pts))
                    if key not in red_cache:
                        # (R.d10 = what the tree removes from an input, D10 included; == exceed_doc when stdev == sigma-apr)
                        R2r = reference(red); red_cache[key] = bool(R2r.d10 or R2r.ambig)
                    if red_cache[key]:
                        out["unclean"] += 1; O[-1] += "|reduced-input-has-gross-terms"; red = None
                if red is not None:
                    run2 = run_gama(exe, g2, tmp, tag + alg + "r", args=("--algorithm", alg), want=("xml",))
                    out["runs"] += 1; out["reduced"] += 1
                    R2 = parse_result(run2.xml) if (run2.rc == 0 and run2.xml) else None
                    if R2 is None or R2.error:
                        V.append(("C14|deletion-equivalence|reduced-run-failed", "alg=%s rc=%s %s" % (alg, run2.rc, (R2.error if R2 else run2.stderr[-200:]))))
                    else:
                        for f, det in compare_results(Rx, R2, out["worst"])[:4]:
                            V.append(("C14|deletion-equivalence|%s" % f, "alg=%s %s" % (alg, det)))
            if out["sample"] is None and (ex_obs or ex_pts):
                out["sample"] = "%s alg=%s: excluded obs %s, points %s, outcome %s" % (
                    cs, alg, [R.S[i].label() for i in sorted(ex_obs)], sorted(ex_pts), O[-1])
        for sig, det in V:
            out["viol"].append((sig, "%s :: %s" % (cs, det), {"case": cs, "alg": alg, "files": files}))
        out["outcomes"] += O
    return out
