"""n08_gen: the free-network family of C08 and its constraint-set lattice.

Every network has integer (lattice) true = approximate coordinates, so that
n08_ref decides defect and admissibility exactly.  Noise: each observation is
shifted by +-e (e = 0.5 mm, or 1.5 cc = the angle 0.5 mm subtends at 200 m;
half of that in the slope-distance + zenith-angle family, 0.075 mm in the
slope-distance-only family whose heights are weakly determined), signs from fixed patterns.  The check asserts that no
coordinate correction exceeds 4 mm; two datum solutions x1, x2 = x1 + N c of
the linearised problem then differ in any inter-point distance (sights
>= 100 m) by at most |x1|*|N c|/L <= (4e-3)^2/100 = 1.6e-7 m (second-order
term), 6 times below the comparison tolerance of 1e-6 m; typical corrections
are 1-2 mm (margin 25-100).
"""
import itertools, os, sys
sys.path.insert(0, os.path.dirname(os.path.abspath(__file__)))
import gnet
from gnet import Pt, Obs, Cluster, Net

PAR = {"sigma-apr": 10, "conf-pr": 0.95, "tol-abs": 1000, "sigma-act": "apriori"}
E_LEN = 0.0005         # 0.5 mm
E_ANG = 0.00015        # 1.5 cc in gon
IDS = "ABCDEFGH"

# sign patterns (bit k of the integer = sign of the k-th scalar observation)
PATTERNS = [0b0101010101010101010101010101010101010101,
            0b0011011100101101000111010110010011101011,
            0b1110001001101011100100110101100011010010]


def sgn(pat, k):
    return 1.0 if (PATTERNS[pat] >> (k % 40)) & 1 else -1.0


# point placements (2-D): non-collinear triples everywhere, distinct xy
GEO2 = {
    4: [[(0, 0), (100, 0), (100, 100), (0, 200)],
        [(0, 0), (200, 100), (100, 200), (0, 100)],
        [(100, 0), (200, 200), (0, 100), (100, 100)]],
    5: [[(0, 0), (100, 0), (200, 100), (100, 200), (0, 100)],
        [(0, 0), (200, 0), (200, 200), (0, 200), (100, 100)],
        [(0, 100), (100, 0), (200, 200), (0, 200), (200, 100)]],
}
# heights for 3-D variants, per point index
GEOZ = [[0, 10, 30, 10, 0], [30, 0, 10, 30, 10], [10, 30, 0, 0, 30]]
# heights for the slope-distance-only family (needs a genuinely 3-D figure:
# heights comparable with the horizontal extent, else z is ill determined)
SDZ = [[0, 100, 200, 100, 50], [200, 0, 100, 150, 100], [100, 200, 0, 50, 200]]
# heights for levelling
LEVZ = [[0, 10, 30, 10, 20], [30, 0, 10, 20, 0], [5, 25, 15, 0, 30]]


def _pts2(n, g):
    return [Pt(IDS[i], x, y, xy="adj") for i, (x, y) in enumerate(GEO2[n][g])]


def _pts3(n, g):
    return [Pt(IDS[i], x, y, GEOZ[g][i], xy="adj", zs="adj")
            for i, (x, y) in enumerate(GEO2[n][g])]


def _pairs(pts, drop=None):
    pr = list(itertools.combinations([p.id for p in pts], 2))
    if drop is not None:
        pr = [q for i, q in enumerate(pr) if i != drop]
    return pr


class Fam:
    def __init__(self, name, net, expect_gen, expect_defect):
        self.name = name; self.net = net
        self.gen = expect_gen; self.defect = expect_defect


def fam_lev(n, g, pat, drop=None):
    pts = [Pt(IDS[i], None, None, LEVZ[g][i], zs="adj") for i in range(n)]
    obs = []; k = 0
    for a, b in _pairs(pts, drop):
        obs.append(Obs("dh", a, b, stdev=2.0, err=E_LEN * sgn(pat, k))); k += 1
    return Fam("lev%d.g%d.p%d.d%s" % (n, g, pat, drop), Net(pts, [Cluster("height-differences", obs)], **PAR), ["tz"], 1)


def fam_dist(n, g, pat, drop=None):
    pts = _pts2(n, g)
    obs = []; k = 0
    for a, b in _pairs(pts, drop):
        obs.append(Obs("distance", a, b, stdev=5.0, err=E_LEN * sgn(pat, k))); k += 1
    return Fam("dist%d.g%d.p%d.d%s" % (n, g, pat, drop), Net(pts, [Cluster("obs", obs)], **PAR), ["tx", "ty", "rz"], 3)


def fam_dirdist(n, g, pat, drop=None):
    pts = _pts2(n, g)
    cl = []; k = 0
    ids = [p.id for p in pts]
    for si, s in enumerate(ids):
        obs = []
        for t in ids:
            if t == s: continue
            obs.append(Obs("direction", s, t, stdev=10.0, err=E_ANG * sgn(pat, k))); k += 1
        cl.append(Cluster("obs", obs, frm=s, zero=17.0 * (si + 1)))
    dobs = []
    for a, b in _pairs(pts, drop):
        dobs.append(Obs("distance", a, b, stdev=5.0, err=E_LEN * sgn(pat, k))); k += 1
    cl.append(Cluster("obs", dobs))
    return Fam("dirdist%d.g%d.p%d.d%s" % (n, g, pat, drop), Net(pts, cl, **PAR), ["tx", "ty", "rz"], 3)


def fam_ang(n, g, pat, drop=None):
    pts = _pts2(n, g)
    ids = [p.id for p in pts]
    obs = []; k = 0
    for s in ids:
        others = [t for t in ids if t != s]
        for i in range(len(others) - 1):
            obs.append(Obs("angle", s, None, bs=others[i], fs=others[i + 1], stdev=10.0, err=E_ANG * sgn(pat, k))); k += 1
    if drop is not None:
        obs = [o for i, o in enumerate(obs) if i != drop]
    return Fam("ang%d.g%d.p%d.d%s" % (n, g, pat, drop), Net(pts, [Cluster("obs", obs)], **PAR), ["tx", "ty", "rz", "sc"], 4)


def fam_sz(n, g, pat, drop=None):
    pts = _pts3(n, g)
    obs = []; k = 0
    for a, b in _pairs(pts, drop):
        obs.append(Obs("s-distance", a, b, stdev=5.0, err=0.5 * E_LEN * sgn(pat, k))); k += 1
    for a, b in _pairs(pts):
        obs.append(Obs("z-angle", a, b, stdev=10.0, err=0.5 * E_ANG * sgn(pat, k))); k += 1
    return Fam("sz%d.g%d.p%d.d%s" % (n, g, pat, drop), Net(pts, [Cluster("obs", obs)], **PAR), ["tx", "ty", "tz", "rz"], 4)


def fam_sd(n, g, pat, drop=None):
    pts = [Pt(IDS[i], x, y, SDZ[g][i], xy="adj", zs="adj") for i, (x, y) in enumerate(GEO2[n][g])]
    obs = []; k = 0
    for a, b in _pairs(pts, drop):
        obs.append(Obs("s-distance", a, b, stdev=5.0, err=0.15 * E_LEN * sgn(pat, k))); k += 1
    return Fam("sd%d.g%d.p%d.d%s" % (n, g, pat, drop), Net(pts, [Cluster("obs", obs)], **PAR), ["tx", "ty", "tz", "rz", "rx", "ry"], 6)


def fam_vec(n, g, pat, drop=None):
    pts = _pts3(n, g)
    obs = []; k = 0
    for a, b in _pairs(pts, drop):
        e = (E_LEN * sgn(pat, k), E_LEN * sgn(pat, k + 1), E_LEN * sgn(pat, k + 2)); k += 3
        obs.append(Obs("vec", a, b, err=e))
    dim = 3 * len(obs)
    cov = gnet.band_cov(dim, 0, lambda i, j: 25.0)
    return Fam("vec%d.g%d.p%d.d%s" % (n, g, pat, drop), Net(pts, [Cluster("vectors", obs, cov=cov)], **PAR), ["tx", "ty", "tz"], 3)


def with_fixed(f, pid, what):
    """variant: one point fixed in xy / z / xyz (datum partly given)"""
    net = f.net.copy()
    p = net.pt(pid)
    if "xy" in what and p.xy: p.xy = "fix"
    if "z" in what and p.zs: p.zs = "fix"
    g = Fam(f.name + ".fix%s%s" % (pid, what), net, None, None)
    return g


def families(tier):
    """the generated free networks of a tier"""
    F = []
    if tier == "quick":
        F.append(fam_lev(4, 0, 0)); F.append(fam_lev(5, 1, 1))
        F.append(fam_dist(4, 0, 0)); F.append(fam_dist(5, 1, 1))
        F.append(fam_dirdist(4, 0, 1))
        F.append(fam_ang(4, 1, 0)); F.append(fam_ang(5, 0, 1))
        F.append(fam_sz(4, 0, 0))
        F.append(fam_sd(5, 1, 0))
        F.append(fam_vec(4, 0, 1))
        F.append(with_fixed(fam_dist(4, 1, 1), "B", "xy"))
        return F
    for g in range(3):
        for pat in range(3):
            for n in (4, 5):
                F.append(fam_lev(n, g, pat))
                F.append(fam_dist(n, g, pat))
                F.append(fam_ang(n, g, pat))
            F.append(fam_dirdist(4, g, pat))
            F.append(fam_sz(4, g, pat))
            F.append(fam_vec(4, g, pat))
            if pat < 2:
                F.append(fam_sd(5, g, pat))
        # thinner observation sets: drop each single observation (pattern 0)
        for drop in range(6):
            F.append(fam_lev(4, g, 0, drop))
            F.append(fam_dirdist(4, g, 0, drop))
            F.append(fam_vec(4, g, 0, drop))
        for drop in range(10):
            F.append(fam_dist(5, g, 0, drop))
        for drop in range(8):
            F.append(fam_ang(4, g, 0, drop))
        for drop in (0, 3, 5):
            F.append(fam_sz(4, g, 0, drop))
        # datum partly given by one fixed point
        F.append(with_fixed(fam_dist(4, g, 1), "B", "xy"))
        F.append(with_fixed(fam_dirdist(4, g, 0), "A", "xy"))
        F.append(with_fixed(fam_ang(4, g, 2), "C", "xy"))
        F.append(with_fixed(fam_sz(4, g, 1), "A", "z"))
        F.append(with_fixed(fam_sz(4, g, 2), "D", "xy"))
        F.append(with_fixed(fam_vec(4, g, 2), "B", "xy"))
        F.append(with_fixed(fam_lev(5, g, 2), "E", "z"))
    F.append(fam_dirdist(5, 0, 0))
    F.append(fam_sz(5, 1, 1))
    return F


def constraint_slots(net):
    """the individually switchable constraints: (pid,'xy') / (pid,'z') of every
    free coordinate group"""
    s = []
    for p in net.points:
        if p.xy in ("adj", "con"): s.append((p.id, "xy"))
        if p.zs in ("adj", "con"): s.append((p.id, "z"))
    return s


def apply_constraints(net, slots, mask):
    n = net.copy()
    for i, (pid, w) in enumerate(slots):
        p = n.pt(pid)
        on = (mask >> i) & 1
        if w == "xy": p.xy = "con" if on else "adj"
        else: p.zs = "con" if on else "adj"
    return n


def mask_name(slots, mask):
    return "+".join("%s.%s" % (pid, w.upper()) for i, (pid, w) in enumerate(slots) if (mask >> i) & 1) or "none"
