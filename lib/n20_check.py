"""n20_check: network-level part of C20 (ill-posed networks are diagnosed,
identically for every algorithm).

worker(item): one (deficiency network, constraint subset): exact
classification by n08_ref, four runs of the real gama-local (text + XML),
oracle evaluation; returns plain data (violations, outcome classes).
"""
import math, os, re, sys
sys.path.insert(0, os.path.dirname(os.path.abspath(__file__)))
import gnet, n08_ref, n08_gen, n08_run, n20_gen

ALGS = gnet.ALGS
ARGS = []             # default command line (iterations etc. as a user gets them)

TOL_LEN = 1e-6
TOL_ANG = 1e-6
TOL_SD = 1e-6
TOL_PVV = 3e-7

_cases = {}


def case_list(tier):
    if tier not in _cases:
        _cases[tier] = n20_gen.cases(tier)
    return _cases[tier]


def apply_removed(net, removed):
    """statuses after gama's removals; removed: [(id, 'xy'|'z'|'xyz', why)]"""
    n = net.copy()
    for (pid, co, why) in removed:
        try:
            p = n.pt(pid)
        except KeyError:
            continue
        if "xy" in co: p.xy = None
        if "z" in co: p.zs = None
    return n


def keys_of(net, pid, co):
    ks = []
    if "xy" in co:
        ks += [("x", pid), ("y", pid)]
        for ci, c in enumerate(net.clusters):
            if c.kind == "obs" and c.frm == pid and any(o.kind == "direction" for o in c.obs):
                ks.append(("o", ci))
    if "z" in co:
        ks.append(("z", pid))
    return ks


def errclass(e):
    e = (e or "").replace("error-document: ", "").replace("GNU Gama - solution ended with error! | ", "")
    e = re.sub(r"\s+", "-", e.strip())
    return e[:60]


def summary(D):
    if D["cls"] == "adj":
        return "adj"
    if D["cls"] == "err":
        return "err(%s)" % errclass(D["err"])
    if D["cls"] == "diag":
        return "diag"
    return D["cls"]


def partition(vals):
    """vals: {alg: hashable} -> 'a+b=V/c=W' (groups ordered by first member)"""
    groups = []
    for a in ALGS:
        if a not in vals: continue
        for g in groups:
            if g[1] == vals[a]:
                g[0].append(a); break
        else:
            groups.append([[a], vals[a]])
    return groups


def part_str(groups, show=True):
    return "/".join("+".join(g[0]) + ("=" + str(g[1]) if show else "") for g in groups)


def rmset(removed):
    s = set()
    for (pid, co, why) in removed:
        if "xy" in co: s.add(pid + ".xy")
        if "z" in co: s.add(pid + ".z")
    return s


def evaluate(case, mask, net, M0, res):
    """-> (violations [(sig, detail, algs)], outcomes [str])"""
    V = []; O = []
    cls = case.cls
    kind0 = M0.kind()
    det0 = M0.determined()
    slots = n08_gen.constraint_slots(case.net)
    where = "%s constraints {%s} (reference: %s, defect %d, rank of N on the constrained coordinates %d)" % (
        case.name, n08_gen.mask_name(slots, mask), kind0, M0.d, M0.rank_NS)
    fin = {}       # alg -> dict(final model info)
    for alg in ALGS:
        D = res[alg]
        if D["nonfinite"]:
            V.append(("C20|non-finite-output|%s|%s" % (cls, alg), "%s: %s" % (where, D["nonfinite"][:2]), [alg]))
        if D["timeout"] or D["cls"] in ("none", "badxml", "text-only-adj") or D["rc"] not in (0, 1):
            V.append(("C20|abnormal-end|%s|%s|%s" % (cls, alg, D["cls"]), "%s: rc=%s cls=%s stderr=%s" % (where, D["rc"], D["cls"], D["stderr"][:200]), [alg]))
            continue
        info = {"cls": D["cls"], "sum": summary(D), "rc": D["rc"]}
        removed = D.get("removed") or []
        if any(co == "?" for (_, co, _) in removed):
            V.append(("C20|harness|unparsed-removed-line|%s" % cls, "%s: %s" % (where, removed), [alg]))
            continue
        # ---- replay of the removal sequence against the exact model
        cur = net
        ok_seq = True
        for step, (pid, co, why) in enumerate(removed):
            Mc = n08_ref.Model(cur)
            ks = keys_of(cur, pid, co)
            present = [k for k in ks if k in Mc.index]
            moving = Mc.moving_keys()
            justified = (not present) or any(k in moving for k in present)
            if not justified:
                V.append(("C20|determined-point-removed|%s|%s|%s" % (cls, alg, why),
                          "%s: removal #%d of %s (%s, '%s'): every unknown of this point is determined by the observations that were active at that moment (exact null space has zero rows there); removed list %s" % (
                              where, step + 1, pid, co, why, removed), [alg]))
                ok_seq = False
            cur = apply_removed(cur, [(pid, co, why)])
        Mf = n08_ref.Model(cur)
        info["removed"] = rmset(removed)
        silent = set("%s.%s" % (pid, co) for (co, pid) in Mf.untouched)
        info["silent"] = silent
        info["effective"] = info["removed"] | silent
        info["Mf"] = Mf
        if D["cls"] in ("adj", "diag") and silent:
            V.append(("C20|undetermined-coordinate-dropped-silently|%s|%s" % (cls, "+".join(sorted({s.split(".")[1] for s in silent}))),
                      "%s: %s: free coordinates %s have no active observation in the system gama finally adjusts; they are neither adjusted nor listed under 'Removed points' (removed list: %s)" % (
                          where, alg, sorted(silent), sorted(info["removed"])), [alg]))
        if D["cls"] == "adj":
            exp = (Mf.d, Mf.m - Mf.n + Mf.d, Mf.n, Mf.m)
            got = (D["defect"], D["dof"], D["n"], D["m"])
            if not Mf.determined():
                V.append(("C20|adjustment-printed-for-undetermined-system|%s|%s|%s" % (cls, alg, Mf.kind()),
                          "%s: after the removals %s the exact reference says %s (defect %d, rank on constrained %d) but an adjustment is printed (defect %s, dof %s)" % (
                              where, sorted(info["removed"]), Mf.kind(), Mf.d, Mf.rank_NS, D["defect"], D["dof"]), [alg]))
            elif got != exp:
                V.append(("C20|defect-dof-counts|%s|%s" % (cls, alg), "%s: (defect,dof,unknowns,equations) printed %s, exact reference for the remaining system %s" % (where, got, exp), [alg]))
            # every adjusted point must be one the model still has, and vice versa
            want = set()
            for p in cur.points:
                if p.xy in ("adj", "con") and ("x", p.id) in Mf.index: want.add(p.id + ".xy")
                if p.zs in ("adj", "con") and ("z", p.id) in Mf.index: want.add(p.id + ".z")
            have = set()
            for pid, e in D["adjusted"].items():
                if "x" in e: have.add(pid + ".xy")
                if "z" in e: have.add(pid + ".z")
            if want != have:
                V.append(("C20|adjusted-point-list|%s|%s" % (cls, alg), "%s: adjusted coordinates printed %s, reference expects %s" % (where, sorted(have), sorted(want)), [alg]))
            info["res"] = D
        elif D["cls"] == "diag":
            dg = D["diag"]
            if Mf.determined():
                V.append(("C20|determined-system-refused|%s|%s|diag" % (cls, alg), "%s: remaining system is determined, gama prints 'can not be adjusted'" % where, [alg]))
            named = []
            for (i, t, pid) in dg["singular"]:
                if t in "XYZ": named.append((t.lower(), pid))
                else:
                    for k in keys_of(cur, pid, "xy"):
                        if k[0] == "o": named.append(k)
            if dg["d"] != Mf.d or len(dg["singular"]) != Mf.d:
                V.append(("C20|named-unknowns-count|%s|%s" % (cls, alg), "%s: diagnosis says defect %d and names %d unknowns %s; exact defect of the remaining system is %d" % (
                    where, dg["d"], len(dg["singular"]), dg["singular"], Mf.d), [alg]))
            elif any(k not in Mf.index for k in named) or not Mf.columns_independent_without(named):
                V.append(("C20|named-unknowns-not-dependent|%s|%s" % (cls, alg), "%s: removing the named unknowns %s does not leave a full-rank Jacobian" % (where, dg["singular"]), [alg]))
        else:  # err
            if det0:
                V.append(("C20|determined-system-refused|%s|%s|%s" % (cls, alg, info["sum"]), "%s: the exact reference says the input is determined, gama answers %s" % (where, info["sum"]), [alg]))
        if det0 and D["cls"] == "adj" and removed and ok_seq and Mf.n < M0.n:
            O.append("%s|determined-but-points-removed-as-singular" % cls)
        fin[alg] = info
    # ---------------- cross-algorithm comparison
    # (1) the specific gso symptom: the BadRegularization exception leaves main()
    cmp_algs = [a for a in ALGS if a in fin]
    if "gso" in fin and fin["gso"]["sum"].startswith("err(AdjGSO::solve()") and not det0:
        others = {a: fin[a]["sum"] for a in cmp_algs if a != "gso"}
        V.append(("C20|gso|bad-regularization-escapes|%s|others=%s" % (cls, part_str(partition(others)).replace("envelope+svd+cholesky=", "")),
                  "%s: gso ends with the raw solver exception 'AdjGSO::solve() --- bad regularization' (no point is removed, no diagnosis); the other algorithms: %s" % (
                      where, "; ".join("%s %s removed %s" % (a, fin[a]["sum"], sorted(fin[a]["effective"])) for a in cmp_algs if a != "gso")), ["gso"] + [a for a in cmp_algs if a != "gso"][:1]))
        cmp_algs = [a for a in cmp_algs if a != "gso"]
    if len(cmp_algs) >= 2:
        # what left the adjustment: a set of coordinates, or everything
        # ("No unknowns have been defined" = every point was removed)
        def desc(a):
            f = fin[a]
            if f["cls"] in ("adj", "diag"): return tuple(sorted(f["effective"]))
            if f["sum"] == "err(No-unknowns-have-been-defined)": return ("ALL",)
            return None
        g = partition({a: ("removal" if desc(a) is not None else fin[a]["sum"], fin[a]["rc"]) for a in cmp_algs})
        if len(g) > 1:
            V.append(("C20|algorithms-disagree|outcome|%s|%s" % (cls, part_str([[x[0], x[1][0]] for x in g])),
                      "%s: %s" % (where, "; ".join("%s: %s rc=%s removed %s" % (a, fin[a]["sum"], fin[a]["rc"], sorted(fin[a]["effective"])) for a in cmp_algs)), [x[0][0] for x in g][:2]))
        ralgs = [a for a in cmp_algs if desc(a) is not None]
        if len(ralgs) >= 2:
            ge = partition({a: desc(a) for a in ralgs})
            if len(ge) > 1:
                V.append(("C20|algorithms-disagree|removed-points|%s|%s" % (cls, part_str(ge, show=False)),
                          "%s: coordinates that leave the adjustment (listed under 'Removed points' + silently dropped; ALL = every point removed, 'No unknowns have been defined'): %s" % (
                              where, "; ".join("%s: %s -> %s" % ("+".join(x[0]), list(x[1]), fin[x[0][0]]["sum"]) for x in ge)), [x[0][0] for x in ge][:2]))
            for sub in ge:
                algs = sub[0]
                if len(algs) < 2 or sub[1] == ("ALL",):
                    continue
                gc = partition({a: fin[a]["cls"] for a in algs})
                if len(gc) > 1:
                    V.append(("C20|algorithms-disagree|outcome|%s|%s" % (cls, part_str(gc)), "%s: same removals %s but %s" % (where, list(sub[1]), part_str(gc)), [x[0][0] for x in gc][:2]))
                gr = partition({a: tuple(sorted(fin[a]["removed"])) for a in algs})
                if len(gr) > 1:
                    V.append(("C20|removed-points-report-differs-by-silent-drop|%s|%s" % (cls, part_str(gr, show=False)),
                              "%s: the same coordinates %s leave the adjustment under every algorithm, but the printed 'Removed points' lists differ: %s" % (
                                  where, list(sub[1]), "; ".join("%s: %s" % ("+".join(x[0]), list(x[1])) for x in gr)), [x[0][0] for x in gr][:2]))
                sa = [a for a in algs if fin[a]["cls"] == "adj"]
                if len(sa) >= 2:
                    V.extend(compare_results(cls, where, sa, {a: fin[a]["res"] for a in sa}))
    # ---------------- outcome class
    oc = "%s|%s|%s" % (cls, kind0, part_str(partition({a: fin[a]["sum"] + ("-rm" if fin[a]["effective"] else "") for a in fin})))
    O.append(oc)
    return V, O


def angdiff(a, b):
    d = math.fmod(a - b, 400.0)
    if d > 200: d -= 400
    if d < -200: d += 400
    return d


def compare_results(cls, where, algs, R):
    V = []
    ref = algs[0]
    A = R[ref]

    def bad(what, a, detail):
        V.append(("C20|algorithms-disagree|results:%s|%s|%s/%s" % (what, cls, ref, a), "%s: %s" % (where, detail), [ref, a]))

    for a in algs[1:]:
        B = R[a]
        if (A["defect"], A["dof"], A["n"], A["m"]) != (B["defect"], B["dof"], B["n"], B["m"]):
            bad("counts", a, "defect/dof/unknowns/equations %s vs %s" % ((A["defect"], A["dof"], A["n"], A["m"]), (B["defect"], B["dof"], B["n"], B["m"])))
            continue
        if abs(A["pvv"] - B["pvv"]) > TOL_PVV * max(abs(A["pvv"]), abs(B["pvv"])) + 1e-9:
            bad("pvv", a, "[pvv] %r vs %r" % (A["pvv"], B["pvv"]))
        if set(A["adjusted"]) != set(B["adjusted"]):
            bad("points", a, "adjusted points %s vs %s" % (sorted(A["adjusted"]), sorted(B["adjusted"])))
            continue
        w = 0.0; wd = ""
        for pid in A["adjusted"]:
            for c in "xyz":
                va, vb = A["adjusted"][pid].get(c), B["adjusted"][pid].get(c)
                if (va is None) != (vb is None):
                    w = 1.0; wd = "%s.%s printed by one algorithm only" % (pid, c)
                elif va is not None and abs(va - vb) > w:
                    w = abs(va - vb); wd = "%s.%s %.9f vs %.9f" % (pid, c, va, vb)
        if w > TOL_LEN:
            bad("coordinates", a, wd)
        if len(A["obs"]) != len(B["obs"]):
            bad("observations", a, "%d vs %d adjusted observations" % (len(A["obs"]), len(B["obs"])))
            continue
        for oa, ob in zip(A["obs"], B["obs"]):
            if oa[:5] != ob[:5]:
                bad("observations", a, "observation lists differ: %s vs %s" % (oa[:5], ob[:5])); break
            ang = oa[0] in ("direction", "angle", "zenith-angle", "azimuth")
            d = abs(angdiff(oa[6], ob[6])) if ang else abs(oa[6] - ob[6])
            if d > (TOL_ANG if ang else TOL_LEN):
                bad("adjusted-observations", a, "%s %s-%s adjusted %r vs %r" % (oa[0], oa[1], oa[2], oa[6], ob[6])); break
            if abs(oa[7] - ob[7]) > TOL_SD + 1e-8 * abs(oa[7]):
                bad("adjobs-stdev", a, "%s %s-%s stdev %r vs %r" % (oa[0], oa[1], oa[2], oa[7], ob[7])); break
    return V


def build(tier, ci, mask):
    case = case_list(tier)[ci]
    slots = n08_gen.constraint_slots(case.net)
    net = n08_gen.apply_constraints(case.net, slots, mask)
    gnet.fill_values(net)
    return case, net, gnet.to_gkf(net)


def worker(item):
    tier, ci, mask, wd, exe = item[:5]
    gkf_override = item[5] if len(item) > 5 else None
    case, net, gkf = build(tier, ci, mask)
    M0 = n08_ref.Model(net)
    key, res = n08_run.run_case(("%s_%d_%x" % (tier[0], ci, mask), gkf_override or gkf, wd, exe, ARGS))
    V, O = evaluate(case, mask, net, M0, res)
    out = {"ci": ci, "mask": mask, "kind": M0.kind(), "viol": [], "outcomes": O, "runs": len(ALGS)}
    for (sig, detail, algs) in V:
        out["viol"].append((sig, detail, {"tier": tier, "ci": ci, "case": case.name, "mask": mask, "algs": algs}, {"input.gkf": gkf}))
    if mask == 0 or M0.kind() == "non-spanning":
        out["sample"] = "%s {%s}: reference %s (defect %d); %s" % (case.name, n08_gen.mask_name(n08_gen.constraint_slots(case.net), mask), M0.kind(), M0.d, O[-1])
    return out
