"""n13_model: network family, input writer and *independent* input reader for
check C13 (exported input reproduces the adjustment and is a fixed point).

* family(tier)            -> list of Member (name, tag, world-frame Net, flags)
* realise(member, axes, angles, approx) -> gkf text (frame transformation of
  coordinates and observed values, approximate-coordinate mode)
* read_input(text)        -> canonical form of a gama-local input document,
  written from doc/gama-local-input.texi only (xml.etree; no gama code)
* cmp_inputs(a, b)        -> list of (component, detail) differences

World frame of the generator = default frame of gnet: x north, y east,
clockwise angles ("ne", "left-handed").
"""
import math, re, xml.etree.ElementTree as ET
import gnet
from gnet import Pt, Obs, Cluster, Net, fnum, xesc

AXES = ["ne", "sw", "es", "wn", "en", "nw", "se", "ws"]      # first four left-handed
ANGLES = ["left-handed", "right-handed"]
ARCSEC_PER_CC = 0.324          # 360*3600 / (400*100*100)
ANGULAR = ("direction", "angle", "azimuth", "z-angle")


def frames():
    return [(a, h) for a in AXES for h in ANGLES]


def consistent(axes, angles):
    return (axes in AXES[:4]) == (angles == "left-handed")


# ------------------------------------------------------------------ geometry
GEOMS = [  # world coordinates (north, east, height)
    {"A": (0.0, 0.0, 10.0), "B": (200.0, 0.0, 14.0), "C": (0.0, 200.0, 18.0), "D": (200.0, 200.0, 12.0),
     "P": (110.0, 90.0, 22.0), "Q": (60.0, 160.0, 16.0), "R": (150.0, 140.0, 27.0)},
    {"A": (1000.0, 5000.0, 250.0), "B": (1180.0, 5030.0, 262.0), "C": (1020.0, 5210.0, 241.0), "D": (1230.0, 5190.0, 255.0),
     "P": (1075.0, 5125.0, 271.0), "Q": (1150.0, 5150.0, 246.0), "R": (1110.0, 5060.0, 280.0)},
]
for _g in GEOMS:
    _g["P&1"] = _g["P"]; _g["Q\u00e9"] = _g["Q"]
W = GEOMS[0]
NOISE = [0.6, -0.4, 0.3, -0.7, 0.5, -0.2, 0.45, -0.55, 0.25, -0.35, 0.65, -0.15]


def P(pid, xy=None, zs=None, **kw):
    n, e, h = W[pid]
    return Pt(pid, n, e, h, xy=xy, zs=zs, **kw)


class Member:
    def __init__(self, name, net, heights=False, planar=True, note="", run_args=(), expect_removed=0, axes=None):
        self.name = name; self.net = net
        self.heights = heights      # has instrument heights that matter numerically -> exact approximations only
        self.planar = planar        # has xy unknowns (frames matter)
        self.note = note
        self.run_args = tuple(run_args)
        self.expect_removed = expect_removed
        self.axes = axes            # restriction of the axes-xy values (None = all 8)


def _noise(net, scale=1.0):
    """deterministic small errors: err = NOISE[k] * stdev (or 1 mm / 3 cc when no stdev is known)"""
    k = 0
    for c in net.clusters:
        for o in c.obs:
            if getattr(o, "keep_err", False):
                k += 1; continue
            if o.kind in ANGULAR:
                s = (o.stdev if o.stdev is not None else 10.0) * 1e-4          # cc -> gon
            else:
                s = (o.stdev if o.stdev is not None else 4.0) * 1e-3           # mm -> m
            if o.kind in ("vec", "coord"):
                o.err = tuple(NOISE[(k + i) % len(NOISE)] * 0.003 * scale for i in range(o.dim()))
            else:
                o.err = NOISE[k % len(NOISE)] * s * scale
            k += 1
    return net


def cov_family(dim, band, unit=25.0):
    """positive definite banded matrix (diagonally dominant), upper band rows"""
    def fn(i, j):
        if i == j: return unit * (1.0 + 0.1 * (i % 3))
        return unit * (0.30 if j - i == 1 else 0.10 / (j - i)) * (1 if (i + j) % 2 else -1)
    return gnet.band_cov(dim, band, fn)


# ------------------------------------------------------------------ base networks (world frame)
def base2d():
    pts = [P("A", xy="fix"), P("B", xy="fix"), P("C", xy="fix"), P("P", xy="adj"), P("Q", xy="adj")]
    cl = [
        Cluster("obs", frm="A", zero=13.0, obs=[
            Obs("direction", "A", "B", stdev=10), Obs("direction", "A", "P", stdev=10),
            Obs("direction", "A", "Q", stdev=12), Obs("direction", "A", "C", stdev=10),
            Obs("distance", "A", "P", stdev=5)]),
        Cluster("obs", frm="B", zero=251.0, obs=[
            Obs("direction", "B", "A", stdev=10), Obs("direction", "B", "P", stdev=10), Obs("direction", "B", "Q", stdev=10),
            Obs("distance", "B", "P", stdev=5), Obs("distance", "B", "Q", stdev=6)]),
        Cluster("obs", frm="P", zero=77.0, obs=[
            Obs("direction", "P", "A", stdev=10), Obs("direction", "P", "B", stdev=10),
            Obs("direction", "P", "Q", stdev=10), Obs("direction", "P", "C", stdev=10),
            Obs("angle", "P", bs="A", fs="Q", stdev=14), Obs("distance", "P", "Q", stdev=4)]),
        Cluster("obs", obs=[
            Obs("distance", "C", "Q", stdev=5), Obs("angle", "C", bs="A", fs="Q", stdev=15),
            Obs("azimuth", "C", "P", stdev=20), Obs("azimuth", "Q", "P", stdev=20)]),
    ]
    return Net(pts, cl)


def base3d():
    pts = [P("A", xy="fix", zs="fix"), P("B", xy="fix", zs="fix"), P("C", xy="fix", zs="fix"),
           P("P", xy="adj", zs="adj"), P("Q", xy="adj", zs="adj")]
    cl = [
        Cluster("obs", frm="A", zero=31.0, obs=[
            Obs("direction", "A", "B", stdev=10), Obs("direction", "A", "P", stdev=10), Obs("direction", "A", "Q", stdev=10),
            Obs("s-distance", "A", "P", stdev=5), Obs("s-distance", "A", "Q", stdev=5),
            Obs("z-angle", "A", "P", stdev=15), Obs("z-angle", "A", "Q", stdev=15)]),
        Cluster("obs", frm="B", zero=120.0, obs=[
            Obs("direction", "B", "A", stdev=10), Obs("direction", "B", "P", stdev=10), Obs("direction", "B", "Q", stdev=10),
            Obs("z-angle", "B", "P", stdev=15), Obs("s-distance", "B", "Q", stdev=5), Obs("distance", "B", "P", stdev=5)]),
        Cluster("height-differences", obs=[
            Obs("dh", "A", "P", stdev=3), Obs("dh", "P", "Q", stdev=3), Obs("dh", "Q", "C", stdev=4), Obs("dh", "B", "Q", stdev=3)]),
        Cluster("vectors", obs=[Obs("vec", "A", "P"), Obs("vec", "P", "Q"), Obs("vec", "C", "Q")], cov=cov_family(9, 8)),
    ]
    return Net(pts, cl)


def base3dc(band=4):
    """base3d + observed coordinates (kept apart: observed coordinates double as approximate coordinates)"""
    n = base3d()
    n.clusters.append(Cluster("coordinates", obs=[Obs("coord", to="P", comps="xyz"), Obs("coord", to="Q", comps="xy")],
                              cov=cov_family(5, band, 100.0)))
    return n


def base3dr():
    """base3d + a third adjusted point R (polar 3-D sights from A and B, one levelled line): the network of the
    coords.* members; every unknown stays determined without the <coordinates> cluster"""
    n = base3d()
    n.points.append(P("R", xy="adj", zs="adj"))
    for c in n.clusters[:2]:
        c.obs += [Obs("direction", c.frm, "R", stdev=10), Obs("s-distance", c.frm, "R", stdev=5), Obs("z-angle", c.frm, "R", stdev=15)]
    _cl(n, "height-differences").obs.append(Obs("dh", "C", "R", stdev=3))
    return n


COORD_PARTS = ("xy", "z", "xyz")
COORD_IDS = {2: ("PQ", "PP"), 3: ("PQR", "PPQ", "PQP", "PQQ", "PPP")}      # every pattern of equal / different neighbours


def coord_sequences():
    """every sequence of 2 and 3 <point> elements of a <coordinates> cluster over the observed components
    {xy, z, xyz}, with every pattern of distinct / repeated point ids (the input format puts no restriction on
    repetitions: each element appends its observations x y / z / x y z to the cluster) -> [(components, ids)]"""
    import itertools
    out = []
    for n in (2, 3):
        for seq in itertools.product(COORD_PARTS, repeat=n):
            for ids in COORD_IDS[n]:
                out.append((seq, ids))
    return out


OBSC_KINDS = (("dir", "direction"), ("ang", "angle"), ("zan", "z-angle"), ("dist", "distance"), ("sdist", "s-distance"))
OBSC_UNITS = ("gon", "deg")


def obsc_sequences(single_direction=False):
    """every sequence of 2 and 3 observations of one <obs> cluster over {direction, angle, z-angle} (angular) and
    {distance, s-distance} (linear), i.e. every order of angular / linear rows of its covariance matrix.  A set with
    exactly one direction is left out: the direction is removed by gama-local (orientation unknown without a second
    direction; that is member rm.single-direction), so it is not a row of the adjustment -> [tuple of (short, kind)]"""
    import itertools
    out = []
    for n in (2, 3):
        for seq in itertools.product(OBSC_KINDS, repeat=n):
            if not single_direction and sum(1 for k in seq if k[1] == "direction") == 1: continue
            out.append(seq)
    return out


def obsc_cluster(seq):
    """station C (fixed), the i-th observation goes to the i-th of the adjusted points P Q R; angles have the left arm A"""
    obs = []
    for (_, kind), to in zip(seq, "PQR"):
        obs.append(Obs("angle", "C", bs="A", fs=to) if kind == "angle" else Obs(kind, "C", to))
    return Cluster("obs", frm="C", zero=163.0, obs=obs)


def baselev():
    pts = [P("A", zs="fix"), P("B", zs="fix"), P("P", zs="adj"), P("Q", zs="adj"), P("R", zs="adj")]
    cl = [Cluster("height-differences", obs=[
        Obs("dh", "A", "P", stdev=2), Obs("dh", "P", "Q", stdev=3), Obs("dh", "Q", "B", stdev=2),
        Obs("dh", "A", "R", stdev=3), Obs("dh", "R", "Q", stdev=2), Obs("dh", "R", "B", stdev=4)])]
    return Net(pts, cl)


def _cl(net, kind, n=0):
    return [c for c in net.clusters if c.kind == kind][n]


def _obs(net, kind):
    return [o for c in net.clusters for o in c.obs if o.kind == kind]


# ------------------------------------------------------------------ the family
def family(noise=1.0, geom=0):
    global W
    W = GEOMS[geom]
    F = []

    def add(name, net, **kw):
        _noise(net, noise)
        F.append(Member(name, net, **kw))

    add("2d", base2d())
    add("3d", base3d())
    add("lev", baselev(), planar=False)

    # ---- height differences: dist / stdev / cov-mat
    n = baselev()
    for i, o in enumerate(n.clusters[0].obs): o.dist = [0.5, 0.8, 1.2, 0.3, 0.9, 1.5][i]; o.stdev = None
    add("lev.dist", n, planar=False)
    n = baselev()
    for i, o in enumerate(n.clusters[0].obs): o.dist = [0.5, 0.8, 1.2, 0.3, 0.9, 1.5][i]
    add("lev.dist+stdev", n, planar=False)
    n = baselev(); n.params["sigma-apr"] = 4.0
    for i, o in enumerate(n.clusters[0].obs):
        if i % 2 == 0: o.dist = [0.5, 0.8, 1.2, 0.3, 0.9, 1.5][i]; o.stdev = None
    add("lev.dist-mixed.m0", n, planar=False)
    for b, nm in ((0, "0"), (1, "1"), (5, "full")):
        n = baselev()
        for o in n.clusters[0].obs: o.stdev = None
        n.clusters[0].cov = cov_family(6, b, 6.0)
        add("lev.cov" + nm, n, planar=False)
    for b in (0, 1):
        n = baselev()
        for i, o in enumerate(n.clusters[0].obs): o.stdev = None; o.dist = [0.5, 0.8, 1.2, 0.3, 0.9, 1.5][i]
        n.clusters[0].cov = cov_family(6, b, 6.0)
        add("lev.dist+cov%d" % b, n, planar=False)

    # ---- several levelling clusters in one document, every order of {cov-mat band 1 with stdev/dist attributes kept,
    # cov-mat band 0, plain stdev} x cluster sizes 2+4 / 4+2 / 3+3: nothing of one cluster may reach the next
    for sizes in ((2, 4), (4, 2), (3, 3)):
        for kinds in (("cov1", "plain"), ("plain", "cov1"), ("cov1", "cov0"), ("cov1", "cov1"), ("cov1d", "plain")):
            n = baselev(); allobs = n.clusters[0].obs; n.clusters = []; at = 0
            for sz, kd in zip(sizes, kinds):
                c = Cluster("height-differences", obs=allobs[at:at + sz]); at += sz
                if kd.startswith("cov"):
                    c.cov = cov_family(sz, int(kd[3]), 6.0)
                    for i, o in enumerate(c.obs):
                        if kd.endswith("d"): o.stdev = None; o.dist = [0.5, 0.8, 1.2, 0.3][i]
                        # else: the stdev attributes stay next to the cov-mat (what --export itself writes)
                n.clusters.append(c)
            add("lev.multi.%d+%d.%s+%s" % (sizes + kinds), n, planar=False)

    # ---- covariance matrices of the other cluster kinds
    for b, nm in ((0, "0"), (1, "1"), (4, "full")):
        n = base2d(); c = n.clusters[0]
        for o in c.obs: o.stdev = None
        c.cov = cov_family(5, b, 90.0)
        add("obs.cov" + nm, n)
    for b in (0, 1):
        n = base3d(); _cl(n, "vectors").cov = cov_family(9, b)
        add("vec.cov%d" % b, n)
        add("coord.cov%d" % b, base3dc(b))
    add("coord.covfull", base3dc(4))
    n = base3dc()
    _cl(n, "coordinates").obs = [Obs("coord", to="P", comps="xyz"), Obs("coord", to="Q", comps="z"), Obs("coord", to="Q", comps="xy")]
    _cl(n, "coordinates").cov = cov_family(6, 2, 100.0)
    add("coord.parts", n)
    # ---- instrument / target heights
    n = base3d()
    for o in _obs(n, "s-distance"): o.from_dh = 1.55; o.to_dh = 1.30
    add("h.s-distance", n, heights=True)
    n = base3d()
    for o in _obs(n, "z-angle"): o.from_dh = 1.55; o.to_dh = 1.30
    add("h.z-angle", n, heights=True)
    n = base3d()
    for o in _obs(n, "z-angle")[:1]: o.to_dh = 1.30
    for o in _obs(n, "s-distance")[:1]: o.from_dh = 1.45
    add("h.single-ends", n, heights=True)
    n = base3d(); n.clusters[0].from_dh = 1.62
    for o in n.clusters[0].obs:
        if o.kind in ("s-distance", "z-angle"): o.to_dh = 1.40
    _obs(n, "z-angle")[0].from_dh = 1.70          # own value overrides the station's
    add("h.obs-from_dh", n, heights=True)
    n = base2d()
    for o in _obs(n, "direction"): o.to_dh = 1.3
    _obs(n, "direction")[0].from_dh = 1.5
    for o in _obs(n, "distance"): o.from_dh = 1.5; o.to_dh = 1.2
    for o in _obs(n, "azimuth"): o.from_dh = 1.4; o.to_dh = 1.1
    add("h.passive2d", n)
    n = base2d(); a = _obs(n, "angle")
    a[0].from_dh = 1.5; a[1].from_dh = 1.6
    add("h.angle.from_dh", n)
    n = base2d(); a = _obs(n, "angle"); a[0].bs_dh = 1.1; a[1].bs_dh = 1.15
    add("h.angle.bs_dh", n)
    n = base2d(); a = _obs(n, "angle"); a[0].fs_dh = 1.2; a[1].fs_dh = 1.25
    add("h.angle.fs_dh", n)
    n = base3d()
    for o in _obs(n, "vec"): o.from_dh = 1.5; o.to_dh = 1.8
    add("h.vec", n)

    # ---- extern
    n = base2d()
    for i, o in enumerate(o for c in n.clusters for o in c.obs): o.extern = "k%d" % i
    add("ext.2d", n)
    n = base3d()
    for i, o in enumerate(o for c in n.clusters for o in c.obs): o.extern = "key %d" % i
    add("ext.3d", n)
    n = base3dc(); _cl(n, "coordinates").extern = "cset 7"
    add("ext.coord", n)

    # ---- sexagesimal input / output
    def degs(n, which=ANGULAR):
        for o in (o for c in n.clusters for o in c.obs):
            if o.kind in which: o.deg = True
        return n
    add("deg.val", degs(base2d()))
    n = base2d(); n.params["angles"] = "360"
    add("deg.out360", n)
    n = degs(base2d()); n.params["angular"] = "360"
    add("deg.val+out360", n)
    n = degs(base3d()); n.params["angles"] = "360"
    add("deg.3d+out360", n)
    n = degs(base2d(), ("angle",))
    add("deg.val-mixed", n)
    for b in (0, 1):
        n = degs(base2d()); c = n.clusters[0]
        for o in c.obs: o.stdev = None
        c.cov = cov_family(5, b, 30.0)
        add("deg.val+cov%d" % b, n)
        n = base2d(); n.params["angles"] = "360"; c = n.clusters[0]
        for o in c.obs: o.stdev = None
        c.cov = cov_family(5, b, 90.0)
        add("deg.out360+cov%d" % b, n)

    # ---- point status
    n = base3d(); n.pt("P").xy = "con"; n.pt("P").zs = "con"
    add("st.con", n)
    n = base3d()
    for p in n.points: p.xy = "con" if p.id in "ABC" else "adj"; p.zs = "con" if p.id in "ABC" else "adj"
    add("st.free", n)
    n = base3d(); n.pt("P").xy = "con"; n.pt("P").zs = "adj"; n.pt("Q").xy = "adj"; n.pt("Q").zs = "con"
    add("st.XYz-xyZ", n)
    n = base3d(); n.pt("A").xy = "fix"; n.pt("A").zs = "adj"; n.pt("B").xy = "con"; n.pt("B").zs = "fix"
    n.pt("C").xy = "adj"; n.pt("C").zs = "fix"
    add("st.mixed-fix-adj", n)
    n = base2d(); n.pt("A").xy = "con"; n.pt("B").xy = "con"; n.pt("C").xy = "adj"
    add("st.free2d", n)
    n = base3d(); n.points.append(P("D", xy="fix", zs="fix"))
    add("pt.unused-fixed", n)
    n = base3d(); n.points.append(P("D", xy="adj", zs="adj"))
    add("pt.unused-adj", n)
    n = base2d(); d = P("D"); d.xy = "none"; n.points.append(d)
    add("pt.nostatus", n)

    # ---- parameters
    for nm, par in (("sigma-apr", {"sigma-apr": 2.5}), ("conf-pr", {"conf-pr": 0.99}), ("tol-abs", {"tol-abs": 250.0}),
                    ("sigma-act", {"sigma-act": "apriori"}), ("sigma-act-apost", {"sigma-act": "aposteriori"}),
                    ("all4", {"sigma-apr": 7.123456789, "conf-pr": 0.9, "tol-abs": 333.25, "sigma-act": "apriori"}),
                    ("cov-band0", {"cov-band": "0"}), ("cov-band2", {"cov-band": "2"}),
                    ("algorithm", {"algorithm": "gso"}), ("angular400", {"angular": "400"})):
        n = base2d() if nm not in ("all4", "cov-band2") else base3d()
        n.params.update(par)
        add("par." + nm, n)
    n = base2d(); n.attrs["epoch"] = "2021.5"
    add("par.epoch", n)
    n = base3d(); n.params["latitude"] = "50"
    add("par.latitude", n)
    n = base3d(); n.params["ellipsoid"] = "wgs84"
    add("par.ellipsoid", n)
    n = base2d(); n.params["latitude"] = "45"; n.params["ellipsoid"] = "bessel"
    add("par.lat+ell2d", n)
    n = base3d()
    for o in (o for c in n.clusters if c.kind == "obs" for o in c.obs): o.stdev = None
    n.po_attrs = {"distance-stdev": "3 2 1", "direction-stdev": "8", "zenith-angle-stdev": "12"}
    add("par.implicit-stdev3d", n)
    n = base2d()
    for o in (o for c in n.clusters for o in c.obs): o.stdev = None
    n.po_attrs = {"distance-stdev": "4.5", "direction-stdev": "9", "angle-stdev": "13", "azimuth-stdev": "21"}
    add("par.implicit-stdev2d", n)
    n = base2d(); n.description = "net 1 & net 2"
    add("desc.amp", n)
    n = base2d(); n.description = "a < b > c"
    add("desc.lt", n)
    n = base2d(); n.description = "it's \"quoted\"\n second line"
    add("desc.quot", n)
    # every XML special character alone (so that no other one triggers the escaping) in a description, in every
    # extern attribute and in a point id
    for nm, ch in (("amp", "&"), ("lt", "<"), ("gt", ">"), ("apos", "'"), ("quot", '"')):
        n = base2d(); n.description = "net %s 7" % ch
        add("desc.only-" + nm, n)
        n = base2d()
        for i, o in enumerate(o for c in n.clusters for o in c.obs): o.extern = "prism 2.5%s k%d" % (ch, i)
        add("ext.only-" + nm, n)
        n = base3dc(); _cl(n, "coordinates").extern = "cset %s 7" % ch
        add("ext.coord.only-" + nm, n)
        n = base2d(); ren = {"P": "P%s1" % ch}
        for p in n.points: p.id = ren.get(p.id, p.id)
        for o in (o for c in n.clusters for o in c.obs):
            for f in ("frm", "to", "bs", "fs"):
                if getattr(o, f) in ren: setattr(o, f, ren[getattr(o, f)])
        for c in n.clusters:
            if c.frm in ren: c.frm = ren[c.frm]
        add("id.only-" + nm, n)

    # ---- removed observations
    n = base2d(); n.params["tol-abs"] = 200.0
    o = _obs(n, "distance")[1]; o.err = 0.9; o.keep_err = True
    add("rm.blunder-dist", n, expect_removed=1)
    n = base3d(); n.params["tol-abs"] = 200.0
    o = _obs(n, "dh")[1]; o.err = 0.7; o.keep_err = True
    add("rm.blunder-dh", n, expect_removed=1)
    n = base2d(); n.points.append(P("R", xy="adj", ax=False))
    n.clusters[0].obs.append(Obs("direction", "A", "R", stdev=10))
    add("rm.target-nocoords", n, expect_removed=1)
    n = base2d(); n.points.append(P("R", xy="adj", ax=False))
    n.clusters[1].obs.append(Obs("distance", "B", "R", stdev=5))
    add("rm.target-nocoords-dist", n, expect_removed=1)
    n = base2d()
    n.clusters.append(Cluster("obs", frm="Q", zero=5.0, obs=[Obs("direction", "Q", "P", stdev=10), Obs("distance", "Q", "A", stdev=5)]))
    add("rm.single-direction", n, expect_removed=1)

    # ---- approximate coordinates omitted / structure of <obs>
    n = base2d(); n.pt("P").ax = False; n.pt("Q").ax = False
    add("ap.omitted2d", n)
    n = base3d(); n.pt("P").ax = False; n.pt("P").az = False
    add("ap.omitted3d", n)
    n = base2d(); c = n.clusters[0]
    c.obs.append(Obs("angle", "C", bs="B", fs="P", stdev=15)); c.obs.append(Obs("distance", "B", "A", stdev=5))
    c.obs[-1].keep_from = c.obs[-2].keep_from = True
    add("obs.from-override", n)
    n = base2d()
    for c in n.clusters: c.orientation_auto = "gon"          # unit of every other angle of the input
    add("obs.orientation-gon", n, axes=("ne", "nw"))
    # (the members obs.orientation-rad / -rad-rough, which gave the value in radians as
    #  GKFparser::process_obs used to store it, were dropped when the unit was repaired in /repo)
    n = base2d()
    for c in n.clusters: c.orientation_auto = "gon-rough"    # 0.25 gon off: a poor approximate value
    add("obs.orientation-gon-rough", n, axes=("ne", "nw"))
    n = base2d()
    ren = {"P": "P&1", "Q": "Q\u00e9"}
    for p in n.points: p.id = ren.get(p.id, p.id)
    for o in (o for c in n.clusters for o in c.obs):
        for f in ("frm", "to", "bs", "fs"):
            if getattr(o, f) in ren: setattr(o, f, ren[getattr(o, f)])
    for c in n.clusters:
        if c.frm in ren: c.frm = ren[c.frm]
    add("id.special", n)

    # ---- <coordinates>: every order of xy-only / z-only / xyz points in one cluster (2 and 3 elements, distinct and repeated ids),
    # diagonal and banded covariance matrix: coords.<components>.<ids>.cov<band>
    for seq, ids in coord_sequences():
        dim = sum(len(c) for c in seq)
        for b in (0, 1):
            n = base3dr()
            n.clusters.append(Cluster("coordinates", obs=[Obs("coord", to=i, comps=c) for c, i in zip(seq, ids)],
                                      cov=cov_family(dim, b, 100.0)))
            add("coords.%s.%s.cov%d" % ("+".join(seq), ids, b), n)

    # ---- <obs> cluster with a covariance matrix: every order of angular / linear observations (2 and 3 observations),
    # band 0 .. dim-1, values and matrix given in gon/cc or degrees/arc seconds, output in gon or degrees:
    # obsc.<kinds>.cov<band>.<input unit>-<output unit>
    for seq in obsc_sequences():
        for b in range(len(seq)):
            for uin in OBSC_UNITS:
                for uout in OBSC_UNITS:
                    n = base3dr()
                    c = obsc_cluster(seq); c.cov = cov_family(len(seq), b, 90.0 if uin == "gon" else 30.0)
                    if uin == "deg":
                        for o in c.obs:
                            if o.kind in ANGULAR: o.deg = True
                    if uout == "deg": n.params["angles"] = "360"
                    n.clusters.append(c)
                    add("obsc.%s.cov%d.%s-%s" % ("+".join(k[0] for k in seq), b, uin, uout), n)
    return F


# ------------------------------------------------------------------ frame transformation + writer
def _axis(c, n, e):
    return {"n": n, "s": -n, "e": e, "w": -e}[c]


def _dms(gon, nd=6):
    deg = gon * 0.9
    d = int(deg); r = (deg - d) * 60
    m = int(r); s = (r - m) * 60
    s = round(s, nd)
    if s >= 60.0: s -= 60.0; m += 1
    if m >= 60: m -= 60; d += 1
    return "%d-%02d-%s" % (d, m, ("%0*.*f" % (nd + 3, nd, s)))


def realise(member, axes="ne", angles="left-handed", approx="exact"):
    """gkf text of the member in the given frame.  approx: exact | perturbed | as-is"""
    net = member.net.copy()
    for c, c0 in zip(net.clusters, member.net.clusters):       # carry private attributes
        for k in ("extern", "orientation_auto"):
            if hasattr(c0, k): setattr(c, k, getattr(c0, k))
    # world-frame consistent values (+ noise)
    gnet.fill_values(net)
    rh = angles == "right-handed"
    L = ['<?xml version="1.0" ?>', '<gama-local xmlns="http://www.gnu.org/software/gama/gama-local">']
    at = dict(net.attrs)
    if (axes, angles) != ("ne", "left-handed") or member.name.startswith("par.epoch"):
        at["axes-xy"] = axes; at["angles"] = angles
    L.append("<network%s>" % "".join(' %s="%s"' % (k, xesc(v)) for k, v in at.items()))
    if net.description is not None:
        L.append("<description>%s</description>" % xesc(net.description))
    if net.params:
        L.append("<parameters %s />" % " ".join('%s="%s"' % (k, v if isinstance(v, str) else fnum(v, 10)) for k, v in net.params.items()))
    L.append("<points-observations%s>" % "".join(' %s="%s"' % (k, v) for k, v in net.po_attrs.items()))
    k = 0
    for p in net.points:
        a = ['id="%s"' % xesc(p.id)]
        off = (0.0, 0.0, 0.0)
        if approx == "perturbed" and p.xy in ("adj", "con"):
            off = ((0.031, -0.024), (-0.018, 0.027), (0.022, 0.033))[k % 3] + ((0.02, -0.015, 0.025)[k % 3],)
            k += 1
        if p.xy is not None and p.ax is not False:
            n, e = p.x + off[0], p.y + off[1]
            a.append('x="%s" y="%s"' % (fnum(_axis(axes[0], n, e), 10), fnum(_axis(axes[1], n, e), 10)))
        if p.zs is not None and p.az is not False:
            a.append('z="%s"' % fnum(p.z + (off[2] if p.zs in ("adj", "con") and approx == "perturbed" else 0.0), 10))
        st = gnet._status_attr(p) if p.xy != "none" else ""
        L.append("<point %s%s />" % (" ".join(a), st))
    for c in net.clusters:
        if c.kind == "obs":
            a = ""
            if c.frm is not None: a += ' from="%s"' % xesc(c.frm)
            ori = c.orientation
            oa = getattr(c, "orientation_auto", None)
            if oa and c.frm is not None:
                ori = c.zero if not rh else gnet.norm400(-c.zero)
                if oa == "gon-rough": ori = gnet.norm400(ori + 0.25)
            if ori is not None: a += ' orientation="%s"' % fnum(ori, 10)
            if c.from_dh is not None: a += ' from_dh="%s"' % fnum(c.from_dh, 10)
            L.append("<obs%s>" % a)
        elif c.kind == "coordinates":
            L.append("<coordinates%s>" % (' extern="%s"' % xesc(c.extern) if getattr(c, "extern", None) else ""))
        else:
            L.append("<%s>" % c.kind)
        for o in c.obs:
            L.append(" " + _obs_xml(o, c, axes, rh))
        if c.cov is not None:
            band, rows = c.cov
            L.append('<cov-mat dim="%d" band="%d">' % (c.dim(), band))
            L.append(gnet.cov_text(band, rows))
            L.append("</cov-mat>")
        L.append("</%s>" % c.kind)
    L += ["</points-observations>", "</network>", "</gama-local>", ""]
    return "\n".join(L)


def _obs_xml(o, c, axes, rh):
    a = []
    k = o.kind

    def add(n, v):
        if v is not None: a.append('%s="%s"' % (n, xesc(v) if isinstance(v, str) else fnum(v, 10)))
    in_station = c.kind == "obs" and c.frm is not None and o.frm == c.frm and not getattr(o, "keep_from", False)
    if k == "coord":
        n = e = 0.0
        v = dict(zip(o.comps, o.val))
        a.append('id="%s"' % xesc(o.to))
        if "x" in v:
            n, e = v["x"], v["y"]
            add("x", _axis(axes[0], n, e)); add("y", _axis(axes[1], n, e))
        if "z" in v: add("z", v["z"])
        return "<point %s />" % " ".join(a)
    if k == "angle":
        if not in_station: add("from", o.frm)
        add("bs", o.bs); add("fs", o.fs)
    elif k == "direction":
        add("to", o.to)
    else:
        if not in_station or k in ("dh", "vec"): add("from", o.frm)
        add("to", o.to)
    if k == "vec":
        n, e, h = o.val
        add("dx", _axis(axes[0], n, e)); add("dy", _axis(axes[1], n, e)); add("dz", h)
    else:
        v = o.val
        if rh and k in ("direction", "angle", "azimuth"):
            v = gnet.norm400(400.0 - v)
        sd = o.stdev
        if getattr(o, "deg", False) and k in ANGULAR:
            v = _dms(v)
            if sd is not None: sd = sd * ARCSEC_PER_CC
        add("val", v)
        add("stdev", sd)
    if k == "dh": add("dist", o.dist)
    add("from_dh", o.from_dh); add("to_dh", o.to_dh); add("bs_dh", o.bs_dh); add("fs_dh", o.fs_dh)
    if o.extern is not None: add("extern", str(o.extern))
    return "<%s %s />" % (k, " ".join(a))


# ------------------------------------------------------------------ independent reader of the input format
def _strip(tag):
    return tag.split("}", 1)[-1]


def _num(s):
    return float(s)


def _angle_value(s):
    """(gon, sexagesimal?) -- 'd-m-s' means degrees-minutes-seconds"""
    t = s.strip()
    m = re.match(r"^([+-]?)(\d+)-(\d+)-(\d+(?:\.\d*)?)$", t)
    if m:
        deg = int(m.group(2)) + int(m.group(3)) / 60.0 + float(m.group(4)) / 3600.0
        if m.group(1) == "-": deg = -deg
        return deg / 0.9, True
    return float(t), False


def _simplify(s):
    return " ".join((s or "").split())


def read_input(text):
    """canonical form (dict) of a gama-local input document; raises ValueError if not parseable"""
    try:
        root = ET.fromstring(text)
    except ET.ParseError as e:
        raise ValueError("not well-formed: %s" % e)
    if _strip(root.tag) != "gama-local": raise ValueError("root " + root.tag)
    net = [e for e in root if _strip(e.tag) == "network"][0]
    D = {"axes-xy": net.get("axes-xy", "ne"), "angles": net.get("angles", "left-handed"),
         "epoch": float(net.get("epoch")) if net.get("epoch") is not None else None,
         "description": None, "params": {}, "points": {}, "clusters": []}
    par = {}
    po = None
    for e in net:
        t = _strip(e.tag)
        if t == "description": D["description"] = e.text or ""
        elif t == "parameters": par.update(e.attrib)
        elif t == "points-observations": po = e
    m0 = float(par.get("sigma-apr", 10.0))
    lat = par.get("latitude")
    D["params"] = {
        "sigma-apr": m0, "conf-pr": float(par.get("conf-pr", 0.95)), "tol-abs": float(par.get("tol-abs", 1000.0)),
        "sigma-act": par.get("sigma-act", "aposteriori"),
        "angular": par.get("angular", par.get("angles", "400")),
        "algorithm": par.get("algorithm"), "cov-band": int(par.get("cov-band", -1)),
        "latitude": (_angle_value(lat)[0] if lat is not None else None), "ellipsoid": par.get("ellipsoid"),
    }
    imp = {"direction": po.get("direction-stdev"), "angle": po.get("angle-stdev"),
           "z-angle": po.get("zenith-angle-stdev"), "azimuth": po.get("azimuth-stdev")}
    dst = (po.get("distance-stdev") or "").split()
    da = float(dst[0]) if len(dst) > 0 else None
    db = float(dst[1]) if len(dst) > 1 else 0.0
    dc = float(dst[2]) if len(dst) > 2 else 1.0

    def implicit(kind, val):
        if kind in ("distance", "s-distance"):
            if da is None: return None
            return da + db * (val / 1000.0) ** dc
        s = imp.get(kind)
        return float(s) if s is not None else None

    for e in po:
        t = _strip(e.tag)
        if t == "point":
            pid = e.get("id")
            fix = e.get("fix", ""); adj = e.get("adj", "")
            sxy = sz = None
            if "xy" in adj: sxy = "adj"
            if "XY" in adj: sxy = "con"
            if "z" in adj: sz = "adj"
            if "Z" in adj: sz = "con"
            if "xy" in fix.lower(): sxy = "fix"
            if "z" in fix.lower(): sz = "fix"
            d = D["points"].setdefault(pid, {"x": None, "y": None, "z": None, "xy": None, "zs": None})
            if e.get("x") is not None: d["x"] = float(e.get("x")); d["y"] = float(e.get("y"))
            if e.get("z") is not None: d["z"] = float(e.get("z"))
            if sxy: d["xy"] = sxy
            if sz: d["zs"] = sz
            continue
        C = {"kind": t, "from": e.get("from"), "orientation": e.get("orientation"), "extern": _simplify(e.get("extern")),
             "obs": [], "cov": None}
        cl_dh = float(e.get("from_dh")) if e.get("from_dh") is not None else 0.0
        sig = []          # (stdev or None, sexagesimal)
        cm = None
        for oe in e:
            ot = _strip(oe.tag)
            if ot == "cov-mat":
                cm = (int(oe.get("dim")), int(oe.get("band")), [float(w) for w in (oe.text or "").split()])
                continue
            g = oe.get
            fl = lambda n, dflt=0.0: float(g(n)) if g(n) is not None else dflt
            if t == "obs":
                O = {"kind": ot, "from": g("from", C["from"]), "extern": _simplify(g("extern")), "from_dh": fl("from_dh", cl_dh)}
                if ot == "direction": O["from"] = C["from"]
                if ot == "angle":
                    O["bs"] = g("bs", g("to")); O["fs"] = g("fs", g("rs")); O["bs_dh"] = fl("bs_dh"); O["fs_dh"] = fl("fs_dh")
                else:
                    O["to"] = g("to"); O["to_dh"] = fl("to_dh")
                if ot in ANGULAR:
                    O["val"], sx = _angle_value(g("val"))
                    if ot != "z-angle": O["val"] = gnet.norm400(O["val"])
                else:
                    O["val"] = float(g("val")); sx = False
                sd = float(g("stdev")) if g("stdev") is not None else implicit(ot, O["val"])
                sig.append((sd, sx)); C["obs"].append(O)
            elif t == "height-differences":
                O = {"kind": "dh", "from": g("from"), "to": g("to"), "val": float(g("val")), "dist": fl("dist"), "extern": _simplify(g("extern"))}
                sd = float(g("stdev")) if g("stdev") is not None else (m0 * math.sqrt(O["dist"]) if g("dist") is not None else None)
                sig.append((sd, False)); C["obs"].append(O)
            elif t == "vectors":
                O = {"kind": "vec", "from": g("from"), "to": g("to"), "val": (float(g("dx")), float(g("dy")), float(g("dz"))),
                     "from_dh": fl("from_dh"), "to_dh": fl("to_dh"), "extern": _simplify(g("extern"))}
                sig += [(None, False)] * 3; C["obs"].append(O)
            elif t == "coordinates":
                comps = ""; val = []
                if g("x") is not None: comps += "xy"; val += [float(g("x")), float(g("y"))]
                if g("z") is not None: comps += "z"; val.append(float(g("z")))
                # a point may be split over several <point/> elements; the observation list is x y z per element
                O = {"kind": "coord", "to": g("id"), "comps": comps, "val": tuple(val)}
                sig += [(None, False)] * len(comps); C["obs"].append(O)
        n = len(sig)
        M = [[0.0] * n for _ in range(n)]
        if cm is not None:
            dim, band, w = cm
            C["cov_dim_ok"] = (dim == n)
            k = 0
            for i in range(min(dim, n)):
                for j in range(i, min(dim, i + band + 1)):
                    if k < len(w) and j < n: M[i][j] = M[j][i] = w[k]
                    k += 1
            C["band_decl"] = band
        else:
            for i, (sd, _) in enumerate(sig):
                M[i][i] = None if sd is None else sd * sd
        # sexagesimal rows: standard deviations / covariances are given in arc seconds
        f = [1.0 / ARCSEC_PER_CC if sx else 1.0 for (_, sx) in sig]
        for i in range(n):
            for j in range(n):
                if M[i][j] is not None: M[i][j] *= f[i] * f[j]
        C["cov"] = M
        C["band"] = max([abs(i - j) for i in range(n) for j in range(n) if M[i][j]] or [0])
        D["clusters"].append(C)
    return D


def _close(a, b, rel=1e-9, ab=1e-12):
    if a is None or b is None: return a is None and b is None
    return abs(a - b) <= ab + rel * max(abs(a), abs(b))


def merged_coordinates(C):
    """coordinates cluster: list of (id, comp, value) -- independent of how points are split into elements"""
    out = []
    for o in C["obs"]:
        for ch, v in zip(o["comps"], o["val"]): out.append((o["to"], ch, v))
    return out


def cmp_inputs(a, b, algorithm=None, value_tol=None):
    """differences between two canonical inputs (a = predecessor, b = export).
    Returns [(component, detail)].  Numbers: relative 1e-9 unless stated (the
    export prints 16-17 significant digits; parameters 8, sexagesimal values 1e-4 arc second)."""
    out = []
    vt = value_tol or {}
    for k in ("axes-xy", "angles"):
        if a[k] != b[k]: out.append(("network." + k, "%s -> %s" % (a[k], b[k])))
    if not _close(a["epoch"], b["epoch"]): out.append(("network.epoch", "%s -> %s" % (a["epoch"], b["epoch"])))
    da, db = _simplify(a["description"]), _simplify(b["description"])
    if da != db: out.append(("description", "%r -> %r" % (da, db)))
    for k, va in a["params"].items():
        vb = b["params"][k]
        if k == "algorithm":
            ea = algorithm or va or "envelope"; eb = vb or "envelope"
            if ea != eb: out.append(("params.algorithm", "%s -> %s" % (ea, eb)))
        elif isinstance(va, float) or isinstance(vb, float):
            if not _close(va, vb, rel=2e-7): out.append(("params." + k, "%s -> %s" % (va, vb)))
        elif va != vb:
            out.append(("params." + k, "%s -> %s" % (va, vb)))
    # points
    for pid, p in a["points"].items():
        if p["xy"] is None and p["zs"] is None: continue           # not part of the adjustment
        q = b["points"].get(pid)
        if q is None:
            out.append(("point.missing", "%s (status %s/%s)" % (pid, p["xy"], p["zs"]))); continue
        if (p["xy"], p["zs"]) != (q["xy"], q["zs"]):
            out.append(("point.status", "%s: %s/%s -> %s/%s" % (pid, p["xy"], p["zs"], q["xy"], q["zs"])))
        if p["xy"] == "fix" and not (_close(p["x"], q["x"]) and _close(p["y"], q["y"])):
            out.append(("point.fixed-xy", "%s: %s,%s -> %s,%s" % (pid, p["x"], p["y"], q["x"], q["y"])))
        if p["zs"] == "fix" and not _close(p["z"], q["z"]):
            out.append(("point.fixed-z", "%s: %s -> %s" % (pid, p["z"], q["z"])))
    for pid, q in b["points"].items():
        p = a["points"].get(pid)
        if p is None or (p["xy"] is None and p["zs"] is None):
            if q["xy"] is not None or q["zs"] is not None:
                out.append(("point.extra", "%s (status %s/%s)" % (pid, q["xy"], q["zs"])))
    # clusters
    if [c["kind"] for c in a["clusters"]] != [c["kind"] for c in b["clusters"]]:
        out.append(("clusters.sequence", "%s -> %s" % ([c["kind"] for c in a["clusters"]], [c["kind"] for c in b["clusters"]])))
        return out
    for ci, (ca, cb) in enumerate(zip(a["clusters"], b["clusters"])):
        kind = ca["kind"]
        if kind == "coordinates":
            la, lb = merged_coordinates(ca), merged_coordinates(cb)
            if [x[:2] for x in la] != [x[:2] for x in lb]:
                out.append(("coordinates.sequence", "%s -> %s" % ([x[:2] for x in la], [x[:2] for x in lb])))
                continue
            for (pid, ch, va), (_, _, vb) in zip(la, lb):
                if not _close(va, vb): out.append(("coordinates.%s" % ch, "%s: %r -> %r" % (pid, va, vb)))
            if ca["extern"] != cb["extern"]: out.append(("coordinates.extern", "%r -> %r" % (ca["extern"], cb["extern"])))
        else:
            if len(ca["obs"]) != len(cb["obs"]):
                out.append(("%s.count" % kind, "%d -> %d" % (len(ca["obs"]), len(cb["obs"])))); continue
            for oa, ob in zip(ca["obs"], cb["obs"]):
                k = oa["kind"]
                if k != ob["kind"]:
                    out.append(("%s.kind" % kind, "%s -> %s" % (k, ob["kind"]))); continue
                for f in sorted(set(oa) | set(ob)):
                    va, vb = oa.get(f), ob.get(f)
                    if f == "val":
                        tol = vt.get(k, 0.0)
                        ta = va if isinstance(va, tuple) else (va,)
                        tb = vb if isinstance(vb, tuple) else (vb,)
                        for i, (x, y) in enumerate(zip(ta, tb)):
                            d = abs(x - y)
                            if k in ("direction", "angle", "azimuth"): d = min(d, abs(400.0 - d))
                            if d > tol + 1e-12 + 1e-11 * abs(x):
                                nm = f if len(ta) == 1 else "d" + "xyz"[i]
                                out.append(("%s.%s" % (k, nm), "%s-%s: %r -> %r" % (oa.get("from"), oa.get("to", oa.get("bs")), x, y)))
                    elif isinstance(va, float) or isinstance(vb, float):
                        if not _close(va, vb, rel=1e-8): out.append(("%s.%s" % (k, f), "%s-%s: %r -> %r" % (oa.get("from"), oa.get("to", oa.get("bs")), va, vb)))
                    elif va != vb:
                        out.append(("%s.%s" % (k, f), "%s-%s: %r -> %r" % (oa.get("from"), oa.get("to", oa.get("bs")), va, vb)))
        # covariance matrix (dense canonical form, so stdev attributes == band-0 matrix)
        Ma, Mb = ca["cov"], cb["cov"]
        if len(Ma) != len(Mb):
            out.append(("%s.cov.dim" % kind, "%d -> %d" % (len(Ma), len(Mb)))); continue
        if cb.get("cov_dim_ok") is False:
            out.append(("%s.cov.dim-attr" % kind, "declared dim differs from the number of observations"))
        bad = None
        for i in range(len(Ma)):
            for j in range(i, len(Ma)):
                x, y = Ma[i][j], Mb[i][j]
                if x is None and y is None: continue
                if x is None or y is None or abs(x - y) > 1e-7 * max(abs(x), abs(y)) + 1e-15:
                    bad = bad or (i, j, x, y)
        if bad:
            i, j, x, y = bad
            what = "stdev" if i == j else "covariance"
            okind = ca["obs"][0]["kind"] if kind == "height-differences" else kind
            out.append(("%s.cov.%s.band%d" % (okind, what, min(ca["band"], 2)), "cluster %d element (%d,%d): %r -> %r" % (ci, i + 1, j + 1, x, y)))
    return out
