"""n09_stat: reference critical values for check C09 (pure python floats).

Every function is written from the definition of the distribution:
  * N(0,1):   upper tail  Q(x) = erfc(x/sqrt 2)/2
  * Student:  upper tail  P(T > t) = I_{v/(v+t^2)}(v/2, 1/2) / 2      (t >= 0)
  * chi^2:    upper tail  P(X > x) = Q(n/2, x/2)   (regularised incomplete gamma)
and the critical value is found by bisection on the tail probability (the
tails are strictly monotone), to a relative width of 1e-13.  The incomplete
beta / gamma functions use the classical series / continued fractions
(Lentz), iterated to 1e-16; measured agreement with scipy.stats on the whole
(alpha, dof) grid used by C09: < 1e-12 relative.

gama's convention (statan.h): all `alfa` arguments are UPPER tail
probabilities:  Normal(a), Student(a, N), Chi_square(a, N) return x with
P(X > x) = a.
"""
import math


def norm_tail(x):
    return 0.5 * math.erfc(x / math.sqrt(2.0))


def _betacf(a, b, x):
    TINY = 1e-300
    qab = a + b; qap = a + 1.0; qam = a - 1.0
    c = 1.0
    d = 1.0 - qab * x / qap
    if abs(d) < TINY: d = TINY
    d = 1.0 / d
    h = d
    for m in range(1, 100000):
        m2 = 2 * m
        aa = m * (b - m) * x / ((qam + m2) * (a + m2))
        d = 1.0 + aa * d
        if abs(d) < TINY: d = TINY
        c = 1.0 + aa / c
        if abs(c) < TINY: c = TINY
        d = 1.0 / d
        h *= d * c
        aa = -(a + m) * (qab + m) * x / ((a + m2) * (qap + m2))
        d = 1.0 + aa * d
        if abs(d) < TINY: d = TINY
        c = 1.0 + aa / c
        if abs(c) < TINY: c = TINY
        d = 1.0 / d
        de = d * c
        h *= de
        if abs(de - 1.0) < 1e-16:
            return h
    raise ArithmeticError("betacf did not converge a=%r b=%r x=%r" % (a, b, x))


def betainc(a, b, x):
    """regularised incomplete beta function I_x(a,b)"""
    if x <= 0.0: return 0.0
    if x >= 1.0: return 1.0
    lbt = (math.lgamma(a + b) - math.lgamma(a) - math.lgamma(b)
           + a * math.log(x) + b * math.log1p(-x))
    bt = math.exp(lbt)
    if x < (a + 1.0) / (a + b + 2.0):
        return bt * _betacf(a, b, x) / a
    return 1.0 - bt * _betacf(b, a, 1.0 - x) / b


def student_tail(t, v):
    """P(T_v > t) for t >= 0"""
    if t <= 0.0: return 0.5
    return 0.5 * betainc(0.5 * v, 0.5, v / (v + t * t))


def gamma_q(a, x):
    """regularised upper incomplete gamma Q(a,x)"""
    if x <= 0.0: return 1.0
    lg = -x + a * math.log(x) - math.lgamma(a)
    if x < a + 1.0:
        # series for P(a,x)
        ap = a; s = 1.0 / a; d = s
        for _ in range(100000):
            ap += 1.0
            d *= x / ap
            s += d
            if abs(d) < abs(s) * 1e-17:
                break
        else:
            raise ArithmeticError("gamma series")
        return 1.0 - s * math.exp(lg)
    TINY = 1e-300
    b = x + 1.0 - a
    c = 1.0 / TINY
    d = 1.0 / b
    h = d
    for i in range(1, 100000):
        an = -i * (i - a)
        b += 2.0
        d = an * d + b
        if abs(d) < TINY: d = TINY
        c = b + an / c
        if abs(c) < TINY: c = TINY
        d = 1.0 / d
        de = d * c
        h *= de
        if abs(de - 1.0) < 1e-16:
            return math.exp(lg) * h
    raise ArithmeticError("gamma cf")


def chi2_tail(x, n):
    return gamma_q(0.5 * n, 0.5 * x)


def _bisect_decreasing(tail, alpha, lo, hi):
    """x in [lo,hi] with tail(x) = alpha, tail strictly decreasing"""
    while tail(hi) > alpha:
        lo = hi; hi *= 2.0
        if hi > 1e300: raise ArithmeticError("no bracket")
    for _ in range(400):
        mid = 0.5 * (lo + hi)
        if mid == lo or mid == hi: break
        if tail(mid) > alpha: lo = mid
        else: hi = mid
        if hi - lo <= 1e-14 * hi: break
    return 0.5 * (lo + hi)


_cache = {}


def normal_crit(alpha):
    """x with P(N > x) = alpha"""
    k = ("n", alpha)
    if k not in _cache:
        if alpha == 0.5: v = 0.0
        elif alpha > 0.5: v = -normal_crit(1.0 - alpha)
        else: v = _bisect_decreasing(norm_tail, alpha, 0.0, 1.0)
        _cache[k] = v
    return _cache[k]


def student_crit(alpha, v):
    k = ("t", alpha, v)
    if k not in _cache:
        if alpha == 0.5: r = 0.0
        elif alpha > 0.5: r = -student_crit(1.0 - alpha, v)
        else: r = _bisect_decreasing(lambda t: student_tail(t, v), alpha, 0.0, 1.0)
        _cache[k] = r
    return _cache[k]


def chi2_crit(alpha, n):
    """x with P(chi2_n > x) = alpha"""
    k = ("c", alpha, n)
    if k not in _cache:
        _cache[k] = _bisect_decreasing(lambda x: chi2_tail(x, n), alpha, 0.0, float(max(n, 1)))
    return _cache[k]
