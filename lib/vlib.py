"""Common machinery for the gama checks (see DESIGN.md section 2).

A check is a python script that
  * builds /repo's working tree (bin/vbuild) and the harness programs it needs,
  * enumerates a finite space completely (itself, or by running a C++ harness
    in shards) and evaluates its oracle on every element,
  * funnels every violation through Check.violation(), which consults
    known_findings.txt, writes a replay file and prints the VIOLATION /
    KNOWN-FINDING line,
  * ends with Check.finish(), which writes evidence/<id>.json and exits.

C++ harness protocol (stdout, tab separated):
  V <sig> <replay-case> <detail>     a violation
  C <counter> <n>                    add n to a counter
  O <class>                          an observed outcome class (counted distinct)
  X <text>                           a sample case (first few are kept)
  D <0|1>                            shard finished; 1 = space completed
"""
import fnmatch, hashlib, json, os, re, shutil, subprocess, sys, tempfile, time
import concurrent.futures as cf

VERIF = os.path.dirname(os.path.dirname(os.path.abspath(__file__)))
REPO = os.path.realpath(os.environ.get("VERIF_REPO", "/repo"))


def evidence_dir():
    if REPO == "/repo":
        return os.path.join(VERIF, "evidence")
    return os.path.join("/dev/shm/verif-evidence", hashlib.md5(REPO.encode()).hexdigest()[:10])
NCPU = int(os.environ.get("VERIF_JOBS", "16"))


def log(*a):
    print(*a, file=sys.stderr, flush=True)


def sh(cmd, **kw):
    return subprocess.run(cmd, stdout=subprocess.PIPE, stderr=subprocess.PIPE,
                          text=True, **kw)


_build_cache = {}


def vbuild(variant):
    """Build $VERIF_REPO working tree, return build dir."""
    if variant in _build_cache:
        return _build_cache[variant]
    t = time.time()
    r = sh([os.path.join(VERIF, "bin", "vbuild"), variant])
    if r.returncode != 0:
        sys.stderr.write(r.stderr)
        log("BUILD-ERROR variant=%s (repo does not build; no verdict)" % variant)
        sys.exit(2)
    b = [l for l in r.stdout.strip().splitlines() if l.startswith("/")][-1]
    _build_cache[variant] = b
    log("[vbuild %s] %s (%.1fs)" % (variant, b, time.time() - t))
    return b


def _objs(bdir):
    out = []
    for root, _, files in os.walk(os.path.join(bdir, "CMakeFiles", "libgama.dir")):
        for f in files:
            if f.endswith(".o"):
                out.append(os.path.join(root, f))
    return sorted(out)


def hbuild(name, variant="rel", extra=()):
    """Compile harness/<name>.cpp against the objects of the variant build.
    Rebuilt when the source, any included header (from the .d file) or any
    libgama object is newer than the binary."""
    bdir = vbuild(variant)
    src = os.path.join(VERIF, "harness", name + ".cpp")
    hdir = os.path.join(bdir, "h")
    os.makedirs(hdir, exist_ok=True)
    exe = os.path.join(hdir, name)
    dep = exe + ".d"
    lock = open(os.path.join(hdir, ".lock-" + name), "w")
    import fcntl
    fcntl.flock(lock, fcntl.LOCK_EX)
    objs = _objs(bdir)
    need = True
    if os.path.exists(exe) and os.path.exists(dep):
        mt = os.path.getmtime(exe)
        deps = re.sub(r"\\\n", " ", open(dep).read()).split(":", 1)[-1].split()
        need = False
        for d in deps + objs + [src]:
            try:
                if os.path.getmtime(d) > mt:
                    need = True
                    break
            except OSError:
                need = True
                break
    if need:
        t = time.time()
        if variant == "asan":
            cxx = ["clang++", "-O1", "-g", "-fno-omit-frame-pointer",
                   "-fsanitize=address,undefined,float-cast-overflow",
                   "-fno-sanitize-recover=undefined", "-fno-sanitize=vptr,pointer-overflow"]
        else:
            cxx = ["g++", "-O2"]
        cmd = cxx + ["-std=c++14", "-DGAMA_VERIF_HOOKS", "-fno-access-control",
                     "-I" + os.path.join(REPO, "lib"),
                     "-I" + os.path.join(VERIF, "harness"),
                     "-MMD", "-MF", dep, "-o", exe + ".tmp", src] + list(extra) + objs + ["-lexpat"]
        r = sh(cmd)
        if r.returncode != 0:
            sys.stderr.write(r.stderr[-6000:])
            log("BUILD-ERROR harness=%s (harness does not compile against this tree; no verdict)" % name)
            sys.exit(2)
        os.replace(exe + ".tmp", exe)
        log("[hbuild %s/%s] %.1fs" % (variant, name, time.time() - t))
    fcntl.flock(lock, fcntl.LOCK_UN)
    return exe


def exe(variant, name):
    return os.path.join(vbuild(variant), name)


ASAN_ENV = dict(os.environ,
                ASAN_OPTIONS="detect_leaks=0:alloc_dealloc_mismatch=0:abort_on_error=0:exitcode=99:allocator_may_return_null=1",
                UBSAN_OPTIONS="print_stacktrace=1:halt_on_error=1:exitcode=98")


class Known:
    def __init__(self):
        self.findings = []  # (property, pattern, text)
        p = os.path.join(VERIF, "known_findings.txt")
        if os.path.exists(p):
            for line in open(p):
                line = line.strip()
                m = re.match(r"finding:\s+property=(\S+)\s+sig=(\S+)\s*::\s*(.*)", line)
                if m:
                    self.findings.append(m.groups())

    def match(self, pid, sig):
        for (p, pat, text) in self.findings:
            if p == pid and (pat == sig or fnmatch.fnmatchcase(sig, pat)):
                return (pat, text)
        return None


class Check:
    def __init__(self, pid, level="model_checking", argv=None):
        import argparse
        ap = argparse.ArgumentParser()
        ap.add_argument("--tier", default=os.environ.get("VERIF_TIER", "quick"))
        ap.add_argument("--replay", default=None)
        ap.add_argument("--deadline", type=float, default=None)
        self.args = ap.parse_args(argv)
        self.pid = pid
        self.tier = "thorough" if self.args.tier.startswith("t") else "quick"
        self.level = level
        self.seed = int(os.environ.get("VERIF_SEED", "0") or 0)
        self.t0 = time.time()
        dl = self.args.deadline or float(os.environ.get("VERIF_DEADLINE_S", "0") or 0)
        if not dl:
            dl = 3000 if self.tier == "thorough" else 600
        self.deadline = self.t0 + dl
        self.known = Known()
        self.counters = {}
        self.outcomes = {}
        self.samples = []
        self.nviol = 0           # unlisted violations
        self.nknown = {}         # pattern -> count
        self.viol_sigs = {}      # sig -> count (unlisted)
        self.exhaustive = True
        self.notes = []
        base = "/dev/shm" if os.path.isdir("/dev/shm") and os.access("/dev/shm", os.W_OK) else os.path.join(VERIF, "build", "tmp")
        os.makedirs(base, exist_ok=True)
        self.tmp = tempfile.mkdtemp(prefix="verif-%s-" % pid, dir=base)
        import atexit
        atexit.register(lambda: shutil.rmtree(self.tmp, ignore_errors=True))
        self.replay_dir = os.path.join(VERIF, "replays", pid)

    # ------------------------------------------------------------------
    def time_left(self):
        return self.deadline - time.time()

    def count(self, key, n=1):
        self.counters[key] = self.counters.get(key, 0) + n

    def outcome(self, cls, n=1):
        self.outcomes[cls] = self.outcomes.get(cls, 0) + n

    def sample(self, s):
        if len(self.samples) < 6:
            self.samples.append(s)

    def violation(self, sig, detail, replay=None, files=None):
        """sig: structural signature; replay: json-able payload that
        `checks/<id>.py --replay file` can re-execute; files: {name: text}."""
        k = self.known.match(self.pid, sig)
        if k:
            pat, text = k
            if pat not in self.nknown:
                print("KNOWN-FINDING: property=%s sig=%s %s" % (self.pid, pat, text), flush=True)
            self.nknown[pat] = self.nknown.get(pat, 0) + 1
            return False
        self.nviol += 1
        n = self.viol_sigs.get(sig, 0)
        self.viol_sigs[sig] = n + 1
        if n >= 3 or self.nviol > 40:
            return True     # enough replays of this signature
        os.makedirs(self.replay_dir, exist_ok=True)
        h = hashlib.sha1((sig + json.dumps(replay, sort_keys=True, default=str)).encode()).hexdigest()[:10]
        path = os.path.join(self.replay_dir, "%s-%s.json" % (self.tier, h))
        payload = {"property": self.pid, "sig": sig, "detail": detail, "case": replay}
        if files:
            payload["files"] = files
        with open(path, "w") as f:
            json.dump(payload, f, indent=1, default=str)
        print("VIOLATION property=%s replay=%s" % (self.pid, path), flush=True)
        print("  sig=%s :: %s" % (sig, str(detail)[:600]), flush=True)
        return True

    # ------------------------------------------------------------------
    def run_shards(self, exe_path, args, nshards=None, env=None, timeout=None, stdin_for=None):
        """Run a C++ harness in shards; merge protocol lines."""
        nshards = nshards or NCPU
        results = []

        def one(i):
            cmd = [exe_path] + list(args) + ["--shard", "%d/%d" % (i, nshards)]
            tl = max(5.0, self.time_left())
            e = dict(env or os.environ, VERIF_DEADLINE_S=str(max(1.0, tl - 5)))
            try:
                r = subprocess.run(cmd, stdout=subprocess.PIPE, stderr=subprocess.PIPE,
                                   text=True, env=e, timeout=timeout or tl + 60,
                                   errors="replace")
                return (i, r.returncode, r.stdout, r.stderr)
            except subprocess.TimeoutExpired as ex:
                return (i, -999, (ex.stdout or b"").decode("utf8", "replace") if isinstance(ex.stdout, bytes) else (ex.stdout or ""), "timeout")

        with cf.ThreadPoolExecutor(max_workers=NCPU) as ex:
            for res in ex.map(one, range(nshards)):
                results.append(res)
        viols = []
        for (i, rc, out, err) in results:
            done = False
            for line in out.splitlines():
                f = line.split("\t")
                if f[0] == "V" and len(f) >= 3:
                    viols.append((f[1], f[2], f[3] if len(f) > 3 else ""))
                elif f[0] == "C" and len(f) >= 3:
                    self.count(f[1], int(f[2]))
                elif f[0] == "O" and len(f) >= 2:
                    self.outcome(f[1], int(f[2]) if len(f) > 2 else 1)
                elif f[0] == "X" and len(f) >= 2:
                    self.sample(f[1])
                elif f[0] == "D":
                    done = True
                    if f[1] != "1":
                        self.exhaustive = False
            if rc != 0 or not done:
                # a harness crash (sanitizer report, abort) is itself a finding
                tail = (err or "")[-3000:]
                m = re.search(r"(ERROR: AddressSanitizer: [\w-]+|runtime error: [^\n]{0,80}|terminate called[^\n]*|Assertion[^\n]*)", tail)
                what = m.group(1) if m else "rc=%s" % rc
                last = ""
                for line in out.splitlines():
                    if line.startswith("L\t"):
                        last = line[2:]
                viols.append(("harness-crash|%s|%s" % (os.path.basename(exe_path), re.sub(r"0x[0-9a-f]+", "", what)[:80]),
                              last, "shard %d rc=%s stderr tail: %s" % (i, rc, tail[-1500:])))
        return viols

    # ------------------------------------------------------------------
    def finish(self, rule, states_key=None, transitions_key=None, extra=None, assumptions=None):
        cov = {}
        ev = self.counters.get("evaluations", 0)
        cov["evaluations"] = ev
        cov["distinct_nontrivial"] = self.counters.get("distinct_nontrivial", len(self.outcomes))
        cov["rule"] = rule
        cov["samples"] = self.samples or ["(none recorded)"]
        cov["exhaustive"] = bool(self.exhaustive)
        cov["distinct_outcomes"] = len(self.outcomes)
        cov["outcome_classes"] = dict(sorted(self.outcomes.items(), key=lambda kv: -kv[1])[:40])
        cov["counters"] = dict(self.counters)
        if self.level == "model_checking":
            cov["states"] = self.counters.get(states_key or "states", 0)
            cov["transitions"] = self.counters.get(transitions_key or "transitions", 0)
            cov["traces_validated_against_impl"] = self.counters.get("traces", cov["transitions"])
        if extra:
            cov.update(extra)
        cov["known_findings_hit"] = dict(self.nknown)
        cov["violation_signatures"] = dict(sorted(self.viol_sigs.items(), key=lambda kv: -kv[1])[:60])
        if self.notes:
            cov["notes"] = self.notes
        evd = {
            "property_id": self.pid, "tier": self.tier, "seed": self.seed,
            "level": self.level, "coverage": cov,
            "assumptions": assumptions or [],
            "wall_s": round(time.time() - self.t0, 2),
            "violations": self.nviol,
            "repo": REPO,
        }
        # evidence/ only ever describes /repo itself; runs against a scratch tree (VERIF_REPO) write elsewhere
        evdir = evidence_dir()
        os.makedirs(evdir, exist_ok=True)
        p = os.path.join(evdir, self.pid + ".json")
        with open(p + ".tmp", "w") as f:
            json.dump(evd, f, indent=1, default=str)
        os.replace(p + ".tmp", p)
        log("[%s %s] evaluations=%d states=%s transitions=%s outcomes=%d exhaustive=%s violations=%d known=%d wall=%.1fs" % (
            self.pid, self.tier, ev, cov.get("states"), cov.get("transitions"), len(self.outcomes),
            self.exhaustive, self.nviol, sum(self.nknown.values()), time.time() - self.t0))
        shutil.rmtree(self.tmp, ignore_errors=True)
        sys.exit(1 if self.nviol else 0)


def pmap(fn, items, workers=None, chunksize=16):
    """Process-parallel ordered map (fn must be a top-level function)."""
    workers = workers or NCPU
    with cf.ProcessPoolExecutor(max_workers=workers) as ex:
        for r in ex.map(fn, items, chunksize=chunksize):
            yield r
