"""n07_model: base networks, equivalence transitions and the result oracle of
check C07 ("equivalent descriptions of the same survey give the same
adjustment").

A *state* is a pair (base network, transformation word).  A word is a tuple of
atomic transitions; each transition rewrites the INPUT (text level: values are
decimal numbers with 8 places, no observation is recomputed from geometry) and
updates the expectation record `Exp` that says how the RESULTS of the base run
map to the results of the transformed run.

World-frame meaning of <network axes-xy= angles=> (doc/gama-local-input.texi,
"Network definition"): axes-xy="ab" -- axis x points to a, axis y points to b
(n,e,s,w); ne sw es wn are left-handed, en nw se ws right-handed;
angles="left-handed" -- angles/directions are observed clockwise,
"right-handed" counterclockwise.  Azimuths are reckoned from North in the
sense of `angles` ("Azimuths").  Sexagesimal input: "d-m-s.sss", standard
deviations / covariances of such observations in arc seconds,
ss = cc * 0.324 ("Angular units").
"""
import itertools, math
import gnet
from gnet import Pt, Obs, Cluster, Net

HANG = ("direction", "angle", "azimuth")          # horizontal angular observations
ANGULAR = HANG + ("z-angle",)
SIGMA = {"direction": 5.0, "angle": 7.0, "azimuth": 8.0, "z-angle": 6.0,      # cc
         "distance": 2.0, "s-distance": 2.0, "dh": 1.5}                        # mm
PARAMS = {"sigma-apr": 10.0, "conf-pr": 0.95, "tol-abs": 1000.0, "sigma-act": "aposteriori"}

TURNS = [0.0001, 100.0, 199.9999, 200.0, 200.0001, 399.9999]
TRANSL = [(1000.0, -2000.0, 500.0), (1000000.0, 5000000.0, 500.0)]
AXES = ["ne", "sw", "es", "wn", "en", "nw", "se", "ws"]
SENSES = ["left-handed", "right-handed"]
UVEC = {"n": (0, 1), "s": (0, -1), "e": (1, 0), "w": (-1, 0)}      # (E,N) components
AZ_OF = {"n": 0.0, "e": 100.0, "s": 200.0, "w": 300.0}             # clockwise azimuth of a compass point
LEFT_HANDED_AXES = ("ne", "sw", "es", "wn")


def unit_err(kind):
    return SIGMA[kind] * (1e-4 if kind in ANGULAR else 1e-3)


def q8(v):
    return round(v, 8)


def qang(v):
    v = round(v, 8)
    if v >= 400.0: v -= 400.0
    if v < 0.0: v += 400.0
    return round(v, 8)


# ------------------------------------------------------------------ templates
def _finish(net, name, noisy, bits):
    """tag clusters/observations, put +-sigma on the noisy ones, fill and quantise"""
    net.tmpl = name
    for ci, c in enumerate(net.clusters):
        c.uid = ci
        for oi, o in enumerate(c.obs):
            o.uid = (ci, oi)
            o.stdev = SIGMA[o.kind] if c.covm is None else None
            if o.kind in ("coord", "vec") and not isinstance(o.err, tuple): o.err = (0.0,) * o.dim()
            o.deg = False
    assert len(noisy) == len(set(noisy))
    for k, nz in enumerate(noisy):
        o = net.clusters[nz[0]].obs[nz[1]]
        sgn = 1.0 if (bits >> k) & 1 else -1.0
        if len(nz) == 3:            # one component of a coordinate / vector observation: +- its standard deviation
            c = net.clusters[nz[0]]
            row = sum(x.dim() for x in c.obs[:nz[1]]) + nz[2]
            e = list(o.err) if isinstance(o.err, (list, tuple)) else [0.0] * o.dim()
            e[nz[2]] = sgn * math.sqrt(c.covm[row][row]) * 1e-3
            o.err = tuple(e)
        else:
            o.err = unit_err(o.kind) * sgn
    gnet.fill_values(net)
    for c in net.clusters:
        for o in c.obs:
            if isinstance(o.val, tuple): o.val = tuple(q8(v) for v in o.val)
            else: o.val = qang(o.val) if o.kind in HANG else q8(o.val)
    net.attrs = {"axes-xy": "ne", "angles": "left-handed"}
    return net


def _cl(kind, obs, frm=None, covm=None):
    c = Cluster(kind, obs, frm=frm)
    c.covm = covm
    return c


def _band_cov(kinds, rho1, rho2=0.0):
    n = len(kinds)
    s = [SIGMA[k] for k in kinds]
    M = [[0.0] * n for _ in range(n)]
    for i in range(n):
        M[i][i] = s[i] * s[i]
        if i + 1 < n: M[i][i + 1] = M[i + 1][i] = round(rho1 * s[i] * s[i + 1], 6) * (1 if i % 2 == 0 else -1)
        if i + 2 < n and rho2: M[i][i + 2] = M[i + 2][i] = round(rho2 * s[i] * s[i + 2], 6)
    return M


NOISY = {
    "net2d": [(0, 0), (0, 2), (1, 1), (2, 0), (2, 4), (3, 1), (4, 0), (4, 1)],
    "net3d": [(0, 0), (0, 3), (1, 1), (1, 2), (2, 1), (3, 1)],
    "lev":   [(0, 0), (0, 2), (0, 3), (1, 0), (1, 1), (1, 2)],
    "netc":  [(0, 0), (1, 0, 0), (1, 0, 1), (1, 1, 1), (2, 0, 0), (2, 1, 1)],
    "netcy": [(0, 0), (1, 0, 0), (1, 0, 1), (1, 1, 1), (2, 0, 0), (2, 1, 1)],
}
NOISY["netw"] = [(0, 0), (1, 0), (2, 0), (2, 4), (0, 1), (1, 1)]
NPAT = {"net2d": 256, "net3d": 64, "lev": 64, "netc": 64, "netcy": 64, "netw": 64}
TEMPLATES = ("net2d", "net3d", "lev", "netc", "netcy", "netw")
# zero turns that put the reading of one chosen target EPS0 above / below 0 (= 400) gon: turn = reading - eps
EPS0 = [-0.0006, -0.0003, -0.0001, 0.0001, 0.0003, 0.0006]
EPS0_OF = {"netw": list(range(6)), "net2d": [2, 3]}


def _sym(n, entries):
    M = [[0.0] * n for _ in range(n)]
    for (i, j), v in entries.items():
        M[i][j] = M[j][i] = v
    return M


def base_net(tmpl, bits):
    D = lambda to: Obs("direction", to=to)
    if tmpl == "net2d":
        # x north, y east (frame of gnet's reference functions)
        pts = [Pt("A", 0.0, 0.0, xy="fix"), Pt("B", 200.0, 0.0, xy="fix"), Pt("C", 0.0, 200.0, xy="fix"),
               Pt("P", 100.0, 100.0, xy="adj"), Pt("Q", 100.0, 200.0, xy="adj")]
        cl = [
            _cl("obs", [D("B"), D("P"), D("Q"), D("C"), Obs("distance", "A", "P"), Obs("distance", "A", "Q")], frm="A"),
            _cl("obs", [D("A"), D("P"), D("Q"), Obs("distance", "B", "P")], frm="B",
                covm=_band_cov(["direction"] * 3 + ["distance"], 0.3)),
            _cl("obs", [D("A"), D("B"), D("Q"), D("C"), Obs("distance", "P", "Q")], frm="P"),
            _cl("obs", [D("P"), D("C"), D("A"), Obs("distance", "Q", "C")], frm="Q"),
            _cl("obs", [Obs("angle", "C", bs="P", fs="Q"), Obs("azimuth", "B", "Q"), Obs("distance", "C", "P")],
                covm=_band_cov(["angle", "azimuth", "distance"], 0.25, 0.2)),
        ]
    elif tmpl == "net3d":
        pts = [Pt("A", 0.0, 0.0, 0.0, xy="fix", zs="fix"), Pt("B", 200.0, 0.0, 10.0, xy="fix", zs="fix"),
               Pt("C", 0.0, 200.0, 30.0, xy="fix", zs="fix"),
               Pt("P", 100.0, 100.0, 10.0, xy="adj", zs="adj"), Pt("Q", 200.0, 200.0, 30.0, xy="adj", zs="adj")]
        S = lambda f, t: Obs("s-distance", f, t)
        Z = lambda f, t: Obs("z-angle", f, t)
        cl = [
            _cl("obs", [S("A", "P"), Z("A", "P"), S("A", "Q"), Z("A", "Q")], frm="A"),
            _cl("obs", [S("B", "P"), Z("B", "P"), S("B", "Q"), Z("B", "Q")], frm="B",
                covm=_band_cov(["s-distance", "z-angle", "s-distance", "z-angle"], 0.3)),
            _cl("obs", [S("C", "P"), Z("C", "P"), S("C", "Q"), Z("C", "Q")], frm="C"),
            _cl("obs", [S("P", "Q"), Z("P", "Q"), Z("Q", "P")]),
        ]
    elif tmpl == "lev":
        pts = [Pt("H1", z=0.0, zs="fix"), Pt("H2", z=30.0, zs="fix"),
               Pt("N1", z=10.0, zs="adj"), Pt("N2", z=30.0, zs="adj"), Pt("N3", z=0.0, zs="adj")]
        H = lambda f, t: Obs("dh", f, t)
        cl = [
            _cl("height-differences", [H("H1", "N1"), H("N1", "N2"), H("N2", "H2"), H("H2", "N3")]),
            _cl("height-differences", [H("N3", "H1"), H("N1", "N3"), H("N2", "N3")],
                covm=_band_cov(["dh", "dh", "dh"], 0.3)),
        ]
    elif tmpl == "netw":
        # wrap-around template: bearings A->B = +2.5 cc and C->Q = 400 gon - 2.5 cc (x north, y east), so that with
        # the +-5 cc errors and the turn0 transitions reading, set orientation and bearing each fall on either side of 0/400
        pts = [Pt("A", 0.0, 0.0, xy="fix"), Pt("B", 200.0, 0.0008, xy="fix"), Pt("C", 0.0, 200.0, xy="fix"),
               Pt("P", 100.0, 100.0, xy="adj"), Pt("Q", 200.0, 199.9992, xy="adj")]
        cl = [
            _cl("obs", [D("B"), D("P"), D("Q"), D("C"), Obs("distance", "A", "P"), Obs("distance", "A", "Q")], frm="A"),
            _cl("obs", [D("Q"), D("P"), D("A"), D("B"), Obs("distance", "C", "Q")], frm="C"),
            _cl("obs", [D("A"), D("B"), D("Q"), D("C"), Obs("distance", "P", "Q"), Obs("distance", "P", "B")], frm="P"),
        ]
    elif tmpl in ("netc", "netcy"):
        # observed coordinates and coordinate differences with full covariance matrices (mm^2).
        # netc: covariances only inside {x,z} rows and inside {y} rows; netcy: also between them
        pts = [Pt("A", 0.0, 0.0, 0.0, xy="fix", zs="fix"), Pt("B", 200.0, 0.0, 10.0, xy="fix", zs="fix"),
               Pt("C", 0.0, 200.0, 30.0, xy="fix", zs="fix"),
               Pt("P", 100.0, 100.0, 10.0, xy="adj", zs="adj"), Pt("Q", 200.0, 100.0, 30.0, xy="adj", zs="adj")]
        S = lambda f, t: Obs("s-distance", f, t)
        # rows: P.x P.y P.z Q.x Q.y
        cc = {(0, 0): 4.0, (1, 1): 5.0, (2, 2): 9.0, (3, 3): 4.0, (4, 4): 6.0, (0, 2): 1.5, (0, 3): 1.2, (1, 4): -1.8, (2, 3): 0.9}
        # rows: vec1 dx dy dz, vec2 dx dy dz
        cv = {(0, 0): 4.0, (1, 1): 4.0, (2, 2): 8.0, (3, 3): 5.0, (4, 4): 3.0, (5, 5): 9.0, (0, 2): -1.4, (0, 3): 1.1, (1, 4): 0.9, (2, 5): 2.0, (3, 5): 1.3}
        if tmpl == "netcy":
            cc.update({(0, 1): 2.4, (1, 2): -1.1, (3, 4): 1.7, (0, 4): 0.8})
            cv.update({(0, 1): 1.9, (1, 2): 1.0, (3, 4): -1.2, (1, 3): 0.7})
        cl = [
            _cl("obs", [S("A", "P"), S("B", "Q"), S("C", "Q")]),
            _cl("coordinates", [Obs("coord", to="P", comps="xyz"), Obs("coord", to="Q", comps="xy")], covm=_sym(5, cc)),
            _cl("vectors", [Obs("vec", "P", "Q"), Obs("vec", "A", "P")], covm=_sym(6, cv)),
        ]
    else:
        raise ValueError(tmpl)
    for c in cl:
        for o in c.obs:
            if o.frm is None and o.kind != "coord": o.frm = c.frm
    return _finish(Net(pts, cl, **PARAMS), tmpl, NOISY[tmpl], bits)


def clone(net):
    n = net.copy()
    n.tmpl = net.tmpl
    for c0, c1 in zip(net.clusters, n.clusters):
        c1.uid = c0.uid
        c1.covm = None if c0.covm is None else [r[:] for r in c0.covm]
    return n


# ------------------------------------------------------------------ writer
def dms(v):
    """gon value with <= 8 decimals -> exact 'd-m-s.sssssss' string"""
    n = int(round(v * 1e8))                 # units of 1e-8 gon
    neg = n < 0
    S = abs(n) * 324                        # units of 1e-7 arc second (1 gon = 3240")
    d, r = divmod(S, 3600 * 10 ** 7)
    m, r = divmod(r, 60 * 10 ** 7)
    s, f = divmod(r, 10 ** 7)
    return "%s%d-%02d-%02d.%07d" % ("-" if neg else "", d, m, s, f)


def to_text(net):
    """gkf text of the net in its current description"""
    w = clone(net)
    w.attrs = dict(net.attrs)
    for c in w.clusters:
        if c.covm is not None:
            n = len(c.covm)
            M = [r[:] for r in c.covm]
            for i, o in enumerate(c.obs):
                if getattr(o, "deg", False) and c.kind == "obs":
                    for j in range(n):
                        M[i][j] *= 0.324
                        M[j][i] *= 0.324
            band = 0
            for i in range(n):
                for j in range(i + 1, n):
                    if M[i][j] != 0.0: band = max(band, j - i)
            c.cov = gnet.band_cov(n, band, lambda i, j: M[i][j])
        for o in c.obs:
            if getattr(o, "deg", False):
                o.val = dms(o.val)
                if o.stdev is not None: o.stdev = o.stdev * 0.324
    return gnet.to_gkf(w)


# ------------------------------------------------------------------ expectation record
class Exp:
    """how results of the base run map to results of the transformed run:
    ids through idmap; (x,y) -> L (x,y) + t, z -> z + tz; residuals of horizontal
    angular observations * sense; circle zero of set `station` moved by dz (clockwise
    azimuth, gon)."""
    def __init__(self, net):
        self.idmap = {p.id: p.id for p in net.points}
        self.L = ((1, 0), (0, 1)); self.t = (0.0, 0.0); self.tz = 0.0
        self.sense = 1
        self.dzero = {}
        self.swapped = set()

    def xy(self, x, y):
        L = self.L
        return (L[0][0] * x + L[0][1] * y + self.t[0], L[1][0] * x + L[1][1] * y + self.t[1])


def axes_matrix(a):
    """rows: world (E,N) -> (x,y) of the frame axes-xy=a"""
    return (UVEC[a[0]], UVEC[a[1]])


def _mm(A, B):
    return tuple(tuple(sum(A[i][k] * B[k][j] for k in range(2)) for j in range(2)) for i in range(2))


def _inv(A):        # signed permutation matrices: inverse = transpose
    return ((A[0][0], A[1][0]), (A[0][1], A[1][1]))


# ------------------------------------------------------------------ transitions
def _perm_cov(M, perm, dims=None):
    """permute the observations (blocks of dims[i] rows) of a covariance matrix"""
    dims = dims or [1] * len(perm)
    off = [0]
    for d in dims: off.append(off[-1] + d)
    rows = [off[p] + k for p in perm for k in range(dims[p])]
    return [[M[i][j] for j in rows] for i in rows]


def _comp_src(L, comp):
    """component `comp` of the new frame = sign * component src of the old frame"""
    if comp == "z": return "z", 1
    row = L[0] if comp == "x" else L[1]
    return ("x", row[0]) if row[0] != 0 else ("y", row[1])


def apply(net, E, tr):
    """apply one atomic transition (list/tuple, json-able) in place"""
    k = tr[0]
    if k == "tr":                                   # translation of all given coordinates
        tx, ty, tz = TRANSL[tr[1]]
        for p in net.points:
            if p.x is not None: p.x += tx; p.y += ty
            if p.z is not None: p.z += tz
        for c in net.clusters:
            for o in c.obs:
                if o.kind == "coord":       # observed coordinates are coordinates
                    o.val = tuple(q8(v + {"x": tx, "y": ty, "z": tz}[ch]) for ch, v in zip(o.comps, o.val))
        E.t = (E.t[0] + tx, E.t[1] + ty); E.tz += tz
    elif k == "turn":                               # turn the zero of one direction set
        c = net.clusters[_find_cluster(net, tr[1])]
        t = TURNS[tr[2]]
        for o in c.obs:
            if o.kind == "direction": o.val = qang(o.val - t)
        # new reading = old - t: the zero moved by +t in the sense of the readings
        st = _base_id(E, c.frm)
        E.dzero[st] = E.dzero.get(st, 0.0) + E.sense * t
    elif k == "turn0":                              # turn the zero so that the reading of target k becomes eps (mod 400)
        c = net.clusters[_find_cluster(net, tr[1])]
        ok = [o for o in c.obs if o.uid == (tr[1], tr[2])][0]
        assert ok.kind == "direction"
        t = qang(ok.val - EPS0[tr[3]])
        for o in c.obs:
            if o.kind == "direction": o.val = qang(o.val - t)
        st = _base_id(E, c.frm)
        E.dzero[st] = E.dzero.get(st, 0.0) + E.sense * t
    elif k == "pp":                                 # permutation of the point records
        net.points = [net.points[i] for i in tr[1]]
    elif k == "pc":                                 # permutation of the clusters
        net.clusters = [net.clusters[i] for i in tr[1]]
    elif k == "po":                                 # permutation of observations inside one cluster
        c = net.clusters[_find_cluster(net, tr[1])]
        perm = tr[2]
        if c.covm is not None: c.covm = _perm_cov(c.covm, perm, [o.dim() for o in c.obs])
        c.obs = [c.obs[i] for i in perm]
    elif k == "swf":                                # one distance of a station cluster: ends swapped and moved to the first position
        c = net.clusters[_find_cluster(net, tr[1])]
        idx = [i for i, o in enumerate(c.obs) if o.uid == (tr[1], tr[2])][0]
        perm = [idx] + [i for i in range(len(c.obs)) if i != idx]
        if c.covm is not None: c.covm = _perm_cov(c.covm, perm, [o.dim() for o in c.obs])
        c.obs = [c.obs[i] for i in perm]
        o = c.obs[0]
        assert o.kind in ("distance", "s-distance")
        o.frm, o.to = o.to, o.frm
        E.swapped ^= {o.uid}
    elif k == "mvd":                                # one distance written in another station's cluster (with its own from=), at position tr[4]
        c = net.clusters[_find_cluster(net, tr[1])]
        o = [x for x in c.obs if x.uid == (tr[1], tr[2])][0]
        d = net.clusters[_find_cluster(net, tr[3])]
        assert o.kind == "distance" and c.covm is None and d.covm is None and c is not d
        c.obs.remove(o); d.obs.insert(tr[4], o)
    elif k == "id":                                 # rename all points
        m = idmap(tr[1], net.tmpl)
        cur = {p.id: m[_base_id(E, p.id)] for p in net.points}
        for p in net.points: p.id = cur[p.id]
        for c in net.clusters:
            if c.frm is not None: c.frm = cur[c.frm]
            for o in c.obs:
                for a in ("frm", "to", "bs", "fs"):
                    v = getattr(o, a)
                    if v is not None: setattr(o, a, cur[v])
        E.idmap = {b: cur[c] for b, c in E.idmap.items()}
    elif k == "deg":                                # gon -> sexagesimal for the angular observations of some clusters
        mask = tr[1]
        n = 0
        for c in net.clusters:
            for o in c.obs:
                if o.kind in ANGULAR:
                    if mask == "alt": o.deg = (n % 2 == 0)
                    elif (mask >> c.uid) & 1: o.deg = True
                    n += 1
    elif k == "swap":                               # swap the two ends of a subset of the distances
        mask = tr[1]
        n = 0
        for c in sorted(net.clusters, key=lambda c: c.uid):
            for o in sorted(c.obs, key=lambda o: o.uid):
                if o.kind in ("distance", "s-distance"):
                    if (mask >> n) & 1:
                        o.frm, o.to = o.to, o.frm
                        E.swapped ^= {o.uid}
                    n += 1
    elif k == "ax":                                 # re-express in another coordinate frame / angle sense
        a1, s1 = tr[1], tr[2]
        a0, s0 = net.attrs["axes-xy"], net.attrs["angles"]
        Lc = _mm(axes_matrix(a1), _inv(axes_matrix(a0)))        # current (x,y) -> new (x,y)
        for p in net.points:
            if p.x is not None:
                p.x, p.y = (Lc[0][0] * p.x + Lc[0][1] * p.y, Lc[1][0] * p.x + Lc[1][1] * p.y)
        for c in net.clusters:
            if c.kind in ("coordinates", "vectors"):
                src = []                                            # new row -> (old row, sign)
                off = 0
                for o in c.obs:
                    comps = o.comps if o.kind == "coord" else "xyz"
                    old = dict(zip(comps, o.val))
                    new = []
                    for ch in comps:
                        s_ch, sg_ = _comp_src(Lc, ch)
                        new.append(q8(sg_ * old[s_ch]))
                        src.append((off + comps.index(s_ch), sg_))
                    o.val = tuple(new)
                    off += len(comps)
                c.covm = [[si * sj * c.covm[i][j] for (j, sj) in src] for (i, si) in src]
        E.L = _mm(Lc, E.L)
        E.t = (Lc[0][0] * E.t[0] + Lc[0][1] * E.t[1], Lc[1][0] * E.t[0] + Lc[1][1] * E.t[1])
        if s1 != s0:
            E.sense = -E.sense
            for c in net.clusters:
                for o in c.obs:
                    if o.kind in HANG: o.val = qang(400.0 - o.val)
                if c.covm is not None and c.kind == "obs":
                    n = len(c.obs)
                    for i in range(n):
                        for j in range(n):
                            if (c.obs[i].kind in HANG) != (c.obs[j].kind in HANG):
                                c.covm[i][j] = -c.covm[i][j]
        net.attrs["axes-xy"] = a1; net.attrs["angles"] = s1
    else:
        raise ValueError(tr)


def _find_cluster(net, uid):
    for i, c in enumerate(net.clusters):
        if c.uid == uid: return i
    raise KeyError(uid)


def _base_id(E, cur):
    for b, c in E.idmap.items():
        if c == cur: return b
    raise KeyError(cur)


_base_cache = {}


def build(tmpl, bits, word):
    if (tmpl, bits) not in _base_cache:
        if len(_base_cache) > 64: _base_cache.clear()
        _base_cache[(tmpl, bits)] = base_net(tmpl, bits)
    net = clone(_base_cache[(tmpl, bits)])
    E = Exp(net)
    for tr in word:
        apply(net, E, tr)
    E.axes = net.attrs["axes-xy"]; E.angles = net.attrs["angles"]
    E.ndirs = {}; E.first_foreign = {}
    for c in net.clusters:
        nd = sum(1 for o in c.obs if o.kind == "direction")
        if nd:
            st = _base_id(E, c.frm)
            E.ndirs[st] = nd
            E.first_foreign[st] = (c.obs[0].frm != c.frm)
    E.corr = {c.uid for c in net.clusters if c.covm is not None}
    # result rows in the order of the transformed input: (uid, kind, component, base component, sign, written value)
    E.order = []
    for c in net.clusters:
        for o in c.obs:
            if o.kind in ("coord", "vec"):
                comps = o.comps if o.kind == "coord" else "xyz"
                for ch, v in zip(comps, o.val):
                    s_ch, sg_ = _comp_src(E.L, ch)
                    E.order.append((o.uid, o.kind, ch, s_ch, sg_, v))
            else:
                E.order.append((o.uid, o.kind, None, None, 1, o.val))
    E.deg = {o.uid for c in net.clusters for o in c.obs if getattr(o, "deg", False)}
    E.xy_corr = False
    for c in net.clusters:
        if c.kind in ("coordinates", "vectors") and c.covm is not None:
            lab = [ch for o in c.obs for ch in (o.comps if o.kind == "coord" else "xyz")]
            E.xy_corr = E.xy_corr or any(c.covm[i][j] != 0.0 and (lab[i] == "y") != (lab[j] == "y")
                                         for i in range(len(lab)) for j in range(len(lab)))
    return net, E


BASE_IDS = {"net2d": ["A", "B", "C", "P", "Q"], "net3d": ["A", "B", "C", "P", "Q"], "netc": ["A", "B", "C", "P", "Q"],
            "netcy": ["A", "B", "C", "P", "Q"], "netw": ["A", "B", "C", "P", "Q"], "lev": ["H1", "H2", "N1", "N2", "N3"]}


def _u(*bs):
    return bytes(bs).decode("utf8")


def _idlist(name):
    """five identifiers of the id map `name` (for the five points of a template, in base order)"""
    if name == "rev":       # numeric ids whose order is the reverse of the base order
        return ["50", "40", "30", "20", "10"]
    if name == "utf8":      # non-ASCII UTF-8 (2-, 3- and 4-byte sequences)
        return ["\u00c1-1", "\u03b2od", "\u70b9C", "\u017e\u00e1k", "\U0001d6c0"]
    if name == "long":      # 40 characters, common prefix of 6 and common tail
        return [("point-%s-" % s + "0123456789abcdefghijklmnopqrstuvwxyz_ABCDEFGH")[:40] for s in "ABCPQ"]
    if name == "blank":     # inner single blanks and no-break spaces (U+00A0 = C2 A0)
        return ["pt A", "pt B", "pt\u00a0C", "P 1 x", "Q\u00a01"]
    if name in NUMERIC_IDS: return NUMERIC_IDS[name]
    # u2-j / u3-j, j = 0..15: 2- resp. 3-byte UTF-8 characters whose continuation bytes are 0x80+4j .. 0x80+4j+3;
    # the 16 maps of a family contain every continuation byte value 0x80..0xBF (u3: in the 2nd and in the 3rd
    # position); ids 0/1 (u3: also 1/2) differ only in one continuation byte; ids 0-3 contain an inner blank
    fam, j = name.split("-"); j = int(j)
    c0, c1, c2, c3 = (0x80 + 4 * j + k for k in range(4))
    if fam == "u2":
        l = 0xC3 + j                                    # C3..D2: U+00C0..U+04BF
        return ["Bod " + _u(l, c0), "Bod " + _u(l, c1), _u(l, c2) + " z", "q " + _u(l, c3), _u(l, c0) + _u(l, c3) + "5"]
    if fam == "u3":
        l = 0xE1 + j % 12                               # E1..EC: U+1000..U+CFFF
        return ["Bod " + _u(l, c0, c1), "Bod " + _u(l, c1, c1), "Bod " + _u(l, c1, c0), _u(l, c2, c3) + " z", "q" + _u(l, c3, c2)]
    raise KeyError(name)


# numeric-looking identifiers.  pointid.cpp: an id is numeric (ordered by value, before all other ids) only if it is
# the canonical decimal form of a positive long; everything else ("007", "+5", "-5", "0", ids above LONG_MAX, "12a")
# is an ordinary string id; two ids are equal only if value AND string agree, so all ids below are distinct points.
NUMERIC_IDS = {
    "n1":  ["1", "2", "7", "8", "9"],
    "n9":  ["123456781", "123456782", "123456783", "999999999", "100000000"],
    "n10": ["2147483646", "2147483647", "2147483648", "4294967295", "4294967296"],                  # around 2^31, 2^32
    "n18": ["123456789012345671", "123456789012345672", "123456789012345673", "999999999999999999", "100000000000000000"],
    "n19": ["9223372036854775806", "9223372036854775807", "9223372036854775808", "9223372036854775809", "1000000000000000000"],   # around 2^63-1
    "n20": ["18446744073709551614", "18446744073709551615", "18446744073709551616", "20260101123045000017", "20260101123045000018"],  # around 2^64-1, timestamp+serial
    "n25": ["1234567890123456789012341", "1234567890123456789012342", "1234567890123456789012343",
            "9999999999999999999999999", "1000000000000000000000000"],
    "nz":  ["007", "7", "07", "0", "00"],              # leading zeros: strings, distinct from 7
    "ns":  ["-5", "+5", "5", "12a", "12"],             # signed-looking and mixed
    "nm":  ["9", "10", "9a", "010", "1e1"],            # numeric order 9 < 10 versus string order, mixed with strings
}

IDMAP_NAMES = ["rev", "utf8", "long", "blank"] + sorted(NUMERIC_IDS) + ["u2-%d" % j for j in range(16)] + ["u3-%d" % j for j in range(16)]


def idmap(name, tmpl):
    ids = _idlist(name)
    assert len(set(ids)) == 5
    return dict(zip(BASE_IDS[tmpl], ids))


# ------------------------------------------------------------------ transition menus
def perms_of(n):
    """all n! for n <= 5; else all cyclic shifts + reversal + all adjacent transpositions"""
    idt = tuple(range(n))
    if n <= 5:
        return [p for p in itertools.permutations(range(n)) if p != idt]
    out = []
    for s in range(1, n):
        out.append(tuple((i + s) % n for i in range(n)))
    out.append(tuple(reversed(range(n))))
    for i in range(n - 1):
        p = list(range(n)); p[i], p[i + 1] = p[i + 1], p[i]; out.append(tuple(p))
    seen = [];
    for p in out:
        if p != idt and p not in seen: seen.append(p)
    return seen


def single_words(tmpl, groups=None):
    """every single transition of the menu, as 1-letter words, grouped by kind"""
    net = base_net(tmpl, 0)
    W = {}
    W["tr"] = [(("tr", i),) for i in range(len(TRANSL))]
    W["turn"] = [(("turn", c.uid, k),) for c in net.clusters if any(o.kind == "direction" for o in c.obs)
                 for k in range(len(TURNS))]
    W["turn0"] = [(("turn0", c.uid, o.uid[1], e),) for c in net.clusters for o in c.obs if o.kind == "direction"
                  for e in EPS0_OF.get(tmpl, [])]
    W["swf"] = [(("swf", c.uid, o.uid[1]),) for c in net.clusters if c.frm is not None and any(x.kind == "direction" for x in c.obs)
                for o in c.obs if o.kind == "distance" and o.frm == c.frm]
    # a distance of one station cluster moved into every other station cluster that has directions, at every position
    # (in particular right after the direction to the same target): same survey, other grouping
    W["mvd"] = [(("mvd", c.uid, o.uid[1], d.uid, pos),) for c in net.clusters if c.frm is not None and c.covm is None
                for o in c.obs if o.kind == "distance" and o.frm == c.frm and len(c.obs) > 1
                for d in net.clusters if d is not c and d.frm is not None and d.covm is None and any(x.kind == "direction" for x in d.obs)
                for pos in range(len(d.obs) + 1)]
    W["pp"] = [(("pp", p),) for p in perms_of(len(net.points))]
    W["pc"] = [(("pc", p),) for p in perms_of(len(net.clusters))]
    W["po"] = [(("po", c.uid, p),) for c in net.clusters for p in perms_of(len(c.obs))]
    W["id"] = [(("id", k),) for k in IDMAP_NAMES]
    nang = [c.uid for c in net.clusters if any(o.kind in ANGULAR for o in c.obs)]
    if nang:
        masks = []
        for r in range(1, len(nang) + 1):
            for sub in itertools.combinations(nang, r):
                masks.append(sum(1 << u for u in sub))
        W["deg"] = [(("deg", m),) for m in masks] + [(("deg", "alt"),)]
    nd = sum(1 for c in net.clusters for o in c.obs if o.kind in ("distance", "s-distance"))
    if nd:
        W["swap"] = [(("swap", m),) for m in range(1, 1 << nd)]
    if tmpl != "lev":
        W["ax"] = [(("ax", a, s),) for a in AXES for s in SENSES if (a, s) != ("ne", "left-handed")]
    if tmpl == "netcy":                 # only there to expose the frame handling of x-y covariances
        W = {k: W[k] for k in ("tr", "ax")}
    if tmpl == "netw":                  # only there to cover the wrap-arounds of reading / orientation / bearing
        W = {k: W[k] for k in ("tr", "turn", "turn0", "swf", "mvd", "ax")}
    W = {k: v for k, v in W.items() if v}
    if groups is not None:
        W = {k: v for k, v in W.items() if k in groups}
    return W


def reduced_menu(tmpl):
    """letters for the two-letter words of the thorough tier"""
    net = base_net(tmpl, 0)
    n = len(net.points); m = len(net.clusters)
    R = [("tr", 1), ("tr", 0),
         ("pp", tuple(reversed(range(n)))), ("pp", tuple((i + 2) % n for i in range(n))),
         ("pc", tuple(reversed(range(m)))),
         ("id", "rev"), ("id", "utf8"), ("id", "u2-2")]
    big = max(net.clusters, key=lambda c: len(c.obs))
    R.append(("po", big.uid, tuple(reversed(range(len(big.obs))))))
    cc = [c for c in net.clusters if c.covm is not None][0]
    R.append(("po", cc.uid, tuple((i + 1) % len(cc.obs) for i in range(len(cc.obs)))))
    if tmpl != "lev":
        nang = [c.uid for c in net.clusters if any(o.kind in ANGULAR for o in c.obs)]
        if nang:
            R.append(("deg", sum(1 << u for u in nang)))
            R.append(("deg", "alt"))
        nd = sum(1 for c in net.clusters for o in c.obs if o.kind in ("distance", "s-distance"))
        R.append(("swap", (1 << nd) - 1)); R.append(("swap", 0b101 & ((1 << nd) - 1)))
        R += [("ax", "en", "right-handed"), ("ax", "sw", "left-handed"), ("ax", "en", "left-handed"),
              ("ax", "ne", "right-handed"), ("ax", "ws", "right-handed"), ("ax", "wn", "right-handed")]
    if tmpl == "net2d":
        R += [("turn", 0, 3), ("turn", 0, 2), ("turn", 2, 4), ("turn", 1, 5), ("turn", 3, 1), ("turn", 2, 0)]
    return R


def pair_words(tmpl):
    if tmpl == "netcy": return []
    if tmpl == "netw":      # frame changes x the turns that bring the two near-axis readings to +-1, +-3 cc, both orders
        R = [("tr", 1), ("ax", "en", "right-handed"), ("ax", "sw", "left-handed"), ("ax", "en", "left-handed"),
             ("ax", "ne", "right-handed"), ("ax", "ws", "right-handed"), ("ax", "wn", "right-handed")]
        R += [("turn0", cu, 0, e) for cu in (0, 1) for e in (1, 2, 3, 4)]
        return [(a, b) for a in R for b in R if a != b]
    R = reduced_menu(tmpl)
    P = [(a, b) for a in R for b in R if a != b]
    if tmpl == "net2d":     # all distances with swapped ends x every order of the observations inside every cluster
        nd = sum(1 for c in base_net(tmpl, 0).clusters for o in c.obs if o.kind == "distance")
        sw = ("swap", (1 << nd) - 1)
        P += [(sw, w[0]) for w in single_words(tmpl)["po"] if (sw, w[0]) not in P]
    return P


def kind_of(word):
    """structural name of a word: transition kinds with their small-menu parameter"""
    out = []
    for tr in word:
        k = tr[0]
        if k == "tr": out.append("tr(%d,%d)" % TRANSL[tr[1]][:2])
        elif k == "turn": out.append("turn(%s)" % gnet.fnum(TURNS[tr[2]], 4))
        elif k == "turn0": out.append("turn0(%+dcc)" % round(EPS0[tr[3]] * 1e4))
        elif k == "id": out.append("id(%s)" % tr[1])
        elif k == "deg": out.append("deg(alt)" if tr[1] == "alt" else "deg")
        elif k == "ax": out.append("ax(%s,%s)" % (tr[1], "lh" if tr[2].startswith("l") else "rh"))
        else: out.append(k)
    return "+".join(out) if out else "base"


def word_json(word):
    return [list(tr[:1]) + [list(x) if isinstance(x, tuple) else x for x in tr[1:]] for tr in word]


def word_from_json(w):
    return tuple(tuple(tuple(x) if isinstance(x, list) else x for x in tr) for tr in w)


# ------------------------------------------------------------------ the oracle
RAD2GON = 200.0 / math.pi
XML_TAG = {"direction": "direction", "distance": "distance", "angle": "angle", "azimuth": "azimuth",
           "s-distance": "slope-distance", "z-angle": "zenith-angle", "dh": "height-diff",
           ("coord", "x"): "coordinate-x", ("coord", "y"): "coordinate-y", ("coord", "z"): "coordinate-z",
           ("vec", "x"): "dx", ("vec", "y"): "dy", ("vec", "z"): "dz"}


def ulp(x):
    x = abs(x)
    if x == 0.0: return 0.0
    return 2.0 ** (math.frexp(x)[1] - 53)


def cdist(a, b, period):
    d = math.fmod(a - b, period)
    if d < 0: d += period
    return min(d, period - d)


def wrap200(d):
    d = math.fmod(d, 400.0)
    if d > 200.0: d -= 400.0
    if d <= -200.0: d += 400.0
    return d


TOL = {
    "coord_abs": 1e-8,      # m; printed with 16 decimals, values below 1e4 m carry < 2e-12 of double noise
    "coord_ulps": 64,       # + 64 ulp of the coordinate magnitude (5e6 m: 6e-8 m)
    "print6": 1.2e-6,       # quantities printed with 6 decimals (fixed / approximate coordinates, orientation shifts)
    "print3": 1.2e-3,       # quantities printed with 3 decimals (qrr, f, std-residual, err-obs, ratio, lower, upper)
    "resid_lin": 2e-9,      # m   residual adj-obs of linear observations (1e-8 m coordinate tolerance projected, see assumptions)
    "resid_ang": 2e-9,      # gon (2e-5 cc) residual of angular observations
    "obs_lin": 1e-9, "obs_ang": 1e-9,   # echo of the observed value (input has <= 10 decimals)
    "rel": 1e-5,            # statistics: [pvv], m0, confidence scale, standard deviations, ellipse axes
    "cov_rel": 1e-5,        # covariances (printed with 8 significant digits), relative to sqrt(c_ii c_jj)
    "alpha": 1e-5,          # gon; ellipse bearing, only compared when (a-b)/a > 1e-3
}


def labels(R, E_idmap_inv=None):
    """labels of the rows of the printed covariance matrix"""
    L = []
    for pid in R.adj_order:
        d = R.adjusted[pid]
        for c in ("x", "y", "z"):
            if c in d or c.upper() in d: L.append((c, pid))
    for (sid, _a, _b) in R.orientations:
        L.append(("o", sid))
    return L


def compare(Rb, Rt, E, tmpl):
    """-> list of (clause, detail); features -> set of strings (outcome classes)"""
    bad = []
    feat = set()
    def fail(clause, msg): bad.append((clause, msg))
    if Rb.error or Rt.error:
        fail("run", "base: %s / transformed: %s" % (Rb.error, Rt.error)); return bad, feat
    inv = {c: b for b, c in E.idmap.items()}
    # --- integers and statistics
    for a in ("dof", "defect", "equations", "unknowns", "connected"):
        if getattr(Rb, a) != getattr(Rt, a):
            fail("counts", "%s %s -> %s" % (a, getattr(Rb, a), getattr(Rt, a)))
    if Rb.counts != Rt.counts or Rb.obs_summary != Rt.obs_summary:
        fail("counts", "summary %s/%s -> %s/%s" % (Rb.counts, Rb.obs_summary, Rt.counts, Rt.obs_summary))
    if bad:
        if Rt.obs_summary.get("directions", 0) < Rb.obs_summary.get("directions", 0):
            # whole direction sets vanished from the adjustment: classify by the structure of the input
            thx = AZ_OF[E.axes[0]]; sg = 1 if E.angles == "left-handed" else -1
            ob = {sid: ad for sid, _ap, ad in Rb.orientations}
            have = {}
            for o in Rt.obs:
                if o["tag"] == "direction": have[o["from"]] = have.get(o["from"], 0) + 1
            why = set(); lost = []
            for st, n in sorted(E.ndirs.items()):
                if have.get(E.idmap[st], 0) < n:
                    lost.append(st)
                    internal = sg * (ob.get(st, 0.0) + E.dzero.get(st, 0.0) - thx)      # orientation in gama's working frame
                    if E.first_foreign.get(st): why.add("first-obs-from-other-station")
                    elif cdist(internal, 200.0, 400.0) < 0.01: why.add("orientation~200gon,even-set")
                    else: why.add("other")
            bad = [("directions-dropped(%s)" % "+".join(sorted(why)), "direction sets of %s vanished: directions %d -> %d, dof %d -> %d" % (
                    lost, Rb.obs_summary["directions"], Rt.obs_summary["directions"], Rb.dof, Rt.dof))]
        return bad, feat
    def rel(a, b): return abs(a - b) <= TOL["rel"] * max(abs(a), abs(b), 1e-30)
    if not rel(Rb.pvv, Rt.pvv): fail("pvv", "%r -> %r" % (Rb.pvv, Rt.pvv))
    for k, v in Rb.sd.items():
        w = Rt.sd.get(k)
        if isinstance(v, float) and isinstance(w, float):
            ok = rel(v, w) if k in ("apriori", "aposteriori", "confidence-scale") else abs(v - w) <= TOL["print3"]
            if not ok: fail("sd", "%s %r -> %r" % (k, v, w))
        elif v != w: fail("sd", "%s %r -> %r" % (k, v, w))
    if set(Rb.sd) != set(Rt.sd): fail("sd", "fields %s -> %s" % (sorted(Rb.sd), sorted(Rt.sd)))
    # --- coordinates
    def ctol(v): return TOL["coord_abs"] + TOL["coord_ulps"] * ulp(v)
    if [inv.get(i) for i in Rt.adj_order] != Rb.adj_order: feat.add("output-point-order-changed")
    for name, tol6 in (("fixed", True), ("approx", True), ("adjusted", False)):
        B = getattr(Rb, name); T = getattr(Rt, name)
        if sorted(E.idmap[i] for i in B) != sorted(T):
            fail(name + "-ids", "%s -> %s" % (sorted(B), sorted(T))); continue
        for pid, d in B.items():
            t = T[E.idmap[pid]]
            if sorted(k for k in d if k != "id") != sorted(k for k in t if k != "id"):
                fail(name + "-fields", "%s: %s -> %s" % (pid, sorted(d), sorted(t))); continue
            up = "X" in d
            if ("x" in d) or up:
                ex, ey = E.xy(d["X" if up else "x"], d["Y" if up else "y"])
                gx, gy = t["X" if up else "x"], t["Y" if up else "y"]
                tx = TOL["print6"] if tol6 else ctol(ex); ty = TOL["print6"] if tol6 else ctol(ey)
                if abs(gx - ex) > tx or abs(gy - ey) > ty:
                    fail(name + "-xy", "%s: expected (%.10f, %.10f) got (%.10f, %.10f) diff (%.3g, %.3g)" % (pid, ex, ey, gx, gy, gx - ex, gy - ey))
            zk = "z" if "z" in d else ("Z" if "Z" in d else None)
            if zk:
                ez = d[zk] + E.tz
                if abs(t[zk] - ez) > (TOL["print6"] if tol6 else ctol(ez)):
                    fail(name + "-z", "%s: expected %.10f got %.10f" % (pid, ez, t[zk]))
    # --- frame quantities of the transformed description
    thx = AZ_OF[E.axes[0]]
    h = 1 if E.axes in LEFT_HANDED_AXES else -1
    sg = 1 if E.angles == "left-handed" else -1
    if h != sg: feat.add("inconsistent-system(y-sign=-1)")
    # --- ellipses
    if sorted(E.idmap[i] for i in Rb.ellipses) != sorted(Rt.ellipses):
        fail("ellipse-ids", "%s -> %s" % (sorted(Rb.ellipses), sorted(Rt.ellipses)))
    else:
        for pid, (a, b, al) in Rb.ellipses.items():
            a2, b2, al2 = Rt.ellipses[E.idmap[pid]]
            if not (rel(a, a2) and rel(b, b2)):
                fail("ellipse-axes", "%s: (%r,%r) -> (%r,%r)" % (pid, a, b, a2, b2))
            if a > 0 and (a - b) / a > 1e-3:
                # bearing of the semi-major axis: clockwise azimuth in the base frame; printed in the
                # sense of `angles` from the x axis (see assumptions)
                exp_al = sg * (al * RAD2GON - thx)
                d = cdist(al2 * RAD2GON, exp_al, 200.0)
                if d > TOL["alpha"] * max(1.0, a / (a - b)):
                    fail("ellipse-alpha", "%s: base %.7f gon, expected %.7f got %.7f (mod 200)" % (pid, al * RAD2GON, math.fmod(exp_al + 800, 200), al2 * RAD2GON))
                if al2 * RAD2GON < 0 or al2 * RAD2GON >= 200.0 + 1e-9:
                    fail("ellipse-alpha-range", "%s: %r" % (pid, al2))
    # --- orientation shifts (one direction set per station in the templates)
    ob = {sid: (ap, ad) for sid, ap, ad in Rb.orientations}
    ot = {sid: (ap, ad) for sid, ap, ad in Rt.orientations}
    if len(ob) != len(Rb.orientations) or sorted(E.idmap[s] for s in ob) != sorted(ot) or len(ot) != len(Rt.orientations):
        fail("ori-ids", "%s -> %s" % (Rb.orientations, Rt.orientations))
    else:
        for sid, (ap, ad) in ob.items():
            ap2, ad2 = ot[E.idmap[sid]]
            dz = E.dzero.get(sid, 0.0)
            # printed shift = bearing of the circle zero reckoned from x towards y of the printed frame
            e_ap = h * (ap + dz - thx); e_ad = h * (ad + dz - thx)
            if cdist(ad2, e_ad, 400.0) > TOL["print6"]:
                fail("ori-adj", "%s: base %.6f expected %.6f got %.6f" % (sid, ad, math.fmod(e_ad + 1200, 400), ad2))
            if cdist(ap2, e_ap, 400.0) > TOL["print6"]:
                # gama takes the median of bearing-reading after wrapping into (-200,200]: near 200 gon the sample
                # is split and the median moves inside the noise band (same root cause as the dropped sets)
                near = cdist(sg * (ad + dz - thx), 200.0, 400.0) < 0.01
                fail("ori-approx(orientation~200gon)" if near else "ori-approx", "%s: base %.6f expected %.6f got %.6f" % (sid, ap, math.fmod(e_ap + 1200, 400), ap2))
            for v in (ap2, ad2):
                if v < 0 or v > 400.0: fail("ori-range", "%s: %r" % (sid, v))
            if abs(math.fmod(e_ad + 1200, 400) - ad) > 1.0 and cdist(e_ad, ad, 400.0) < 1.0: feat.add("orientation-crosses-0/400")
    # --- covariance matrix of the adjusted unknowns
    Lb = labels(Rb); Lt = labels(Rt)
    if Rb.cov_dim != Rt.cov_dim or len(Lb) != Rb.cov_dim or len(Lt) != Rt.cov_dim or Rb.cov_band != Rt.cov_band:
        fail("cov-shape", "dim %s band %s labels %d -> dim %s band %s labels %d" % (Rb.cov_dim, Rb.cov_band, len(Lb), Rt.cov_dim, Rt.cov_band, len(Lt)))
    elif sorted((c, inv.get(p, "?" + p)) for c, p in Lt) != sorted(Lb):
        fail("cov-labels", "%s -> %s" % (Lb, Lt))
    elif Rb.cov_band == Rb.cov_dim - 1:
        Cb = gnet.cov_full(Rb); Ct = gnet.cov_full(Rt)
        # express each transformed unknown as +-1 * one base unknown
        pos = {l: i for i, l in enumerate(Lb)}
        src = []
        for (c, pid) in Lt:
            bid = inv[pid]
            if c == "z": src.append((pos[("z", bid)], 1))
            elif c == "o": src.append((pos[("o", bid)], COV_ORI_SIGN(h, sg)))
            else:
                row = E.L[0] if c == "x" else E.L[1]
                s = COV_Y_SIGN(h, sg) if c == "y" else 1
                if row[0] != 0: src.append((pos[("x", bid)], row[0] * s))
                else: src.append((pos[("y", bid)], row[1] * s))
        n = len(Lt)
        def mismatch(flip):
            worst = None
            for i in range(n):
                for j in range(i, n):
                    e = src[i][1] * src[j][1] * Cb[src[i][0]][src[j][0]]
                    if flip and ((Lt[i][0] in "yo") != (Lt[j][0] in "yo")): e = -e
                    g = Ct[i][j]
                    sc = math.sqrt(abs(Cb[src[i][0]][src[i][0]] * Cb[src[j][0]][src[j][0]]))
                    if abs(g - e) > TOL["cov_rel"] * sc:
                        if worst is None or abs(g - e) / sc > worst[0]:
                            worst = (abs(g - e) / sc, Lt[i], Lt[j], e, g)
            return worst
        worst = mismatch(False)
        if worst:
            if h != sg and mismatch(True) is None:
                # the matrix is that of (x, -y, -orientation): rows of y and of the orientation shifts carry the
                # sign of gama's internal mirrored frame although <adjusted> and <orientation-shifts> print y, shift
                fail("cov-y-sign", "inconsistent system %s/%s: cov(%s,%s): expected %.8g got %.8g; all entries agree after negating the y and orientation rows" % (E.axes, E.angles, worst[1], worst[2], worst[3], worst[4]))
            else:
                kinds = "".join(sorted({worst[1][0], worst[2][0]}))
                fail("cov-" + kinds, "cov(%s,%s): expected %.8g got %.8g" % (worst[1], worst[2], worst[3], worst[4]))
    # --- observations, matched by position in the transformed input
    if len(Rb.obs) != len(E.order) or len(Rt.obs) != len(E.order):
        fail("obs-count", "%d / %d / input %d" % (len(Rb.obs), len(Rt.obs), len(E.order)))
        return bad, feat
    bpos = {k: i for i, k in enumerate(sorted((u, s_ch or "") for (u, _k, _c, s_ch, _s, _v) in E.order))}
    for i, (uid, kind, ch, s_ch, csign, val) in enumerate(E.order):
        b = Rb.obs[bpos[(uid, s_ch or "")]]; t = Rt.obs[i]
        if b["tag"] != XML_TAG[(kind, s_ch) if ch else kind] or t["tag"] != XML_TAG[(kind, ch) if ch else kind]:
            fail("obs-order", "obs %s: tags %s / %s, expected kind %s %s" % (uid, b["tag"], t["tag"], kind, ch or "")); break
        ends_b = (b.get("from"), b.get("to"), b.get("left"), b.get("right"), b.get("id"))
        ends_t = (t.get("from"), t.get("to"), t.get("left"), t.get("right"), t.get("id"))
        exp_ends = tuple(None if e is None else E.idmap[e] for e in ends_b)
        if uid in E.swapped: exp_ends = (exp_ends[1], exp_ends[0], None, None, None)
        if exp_ends != ends_t:
            fail("obs-ends", "obs %s: %s -> %s expected %s" % (uid, ends_b, ends_t, exp_ends)); continue
        deg = uid in E.deg
        ang = kind in ANGULAR
        s = E.sense if kind in HANG else csign
        rb = b["adj"] - b["obs"]; rt = t["adj"] - t["obs"]
        if kind in HANG: rb = wrap200(rb); rt = wrap200(rt)
        if abs(rt - s * rb) > (TOL["resid_ang"] if ang else TOL["resid_lin"]):
            fail("residual-" + kind, "obs %s %s: base %.12f expected %.12f got %.12f" % (uid, ends_t, rb, s * rb, rt))
        if kind in HANG:
            if cdist(t["obs"], val, 400.0) > TOL["obs_ang"]: fail("obs-echo-" + kind, "obs %s: input %r%s printed %r" % (uid, val, " (as d-m-s)" if deg else "", t["obs"]))
            if (b["obs"] < 200) != (t["obs"] < 200) and cdist(b["obs"], t["obs"], 400) < 0.01: feat.add("reading-crosses-0/400")
        elif abs(t["obs"] - val) > (TOL["obs_ang"] if ang else TOL["obs_lin"]):
            fail("obs-echo-" + kind, "obs %s: input %r%s printed %r" % (uid, val, " (as d-m-s)" if deg else "", t["obs"]))
        corr = "corr" if uid[0] in E.corr else kind
        if not rel(b["stdev"], t["stdev"]):
            fail("obs-stdev-" + corr, "obs %s: %r -> %r" % (uid, b["stdev"], t["stdev"]))
        for fld in ("qrr", "f", "std-residual"):
            if fld in b and fld in t and abs(b[fld] - t[fld]) > TOL["print3"]:
                fail("obs-" + fld + "-" + corr, "obs %s: %r -> %r" % (uid, b[fld], t[fld]))
        for fld in ("err-obs", "err-adj"):
            if fld in b and fld in t and abs(t[fld] - s * b[fld]) > TOL["print3"] * (1 + 1e-3 * abs(b[fld])):
                fail("obs-" + fld + "-" + corr, "obs %s: base %r expected %r got %r" % (uid, b[fld], s * b[fld], t[fld]))
        if deg: feat.add("sexagesimal-input")
        if kind == "direction" and cdist(t["obs"], 0.0, 400.0) < 0.001:
            # reading, approximate orientation and bearing in gama's working frame, each within 10 cc of 0/400: which side
            try:
                ys = h * sg
                pf = dict(Rt.fixed); pf.update(Rt.approx)
                a_, b_ = pf[t["from"]], pf[t["to"]]
                s_ = math.atan2(ys * (b_.get("y", b_.get("Y")) - a_.get("y", a_.get("Y"))), b_.get("x", b_.get("X")) - a_.get("x", a_.get("X"))) * RAD2GON
                o_ = ys * ot[t["from"]][0]
                side = lambda v: None if cdist(v, 0.0, 400.0) >= 0.001 else ("+" if math.fmod(v + 800.0, 400.0) < 200.0 else "-")
                tri = (side(t["obs"]), side(o_), side(s_))
                if None not in tri: feat.add("wrap(reading%s,orientation%s,bearing%s)" % tri)
            except (KeyError, TypeError):
                pass
    if h != sg and E.xy_corr and any(not (c.startswith("obs-") and c.endswith("-corr")) and c != "cov-y-sign" for c, _ in bad):
        # observed coordinates / coordinate differences whose covariance matrix couples y with x or z, in a
        # system that gama mirrors internally: everything downstream differs; one structural clause
        bad = [("xy-correlated-coordinates-in-inconsistent-system", "%s/%s: %s" % (E.axes, E.angles, "; ".join("%s: %s" % b for b in bad[:3])))]
    return bad, feat


# conventions of the printed covariance matrix / orientation rows in systems where the handedness of
# the coordinates differs from the sense of the angles (h != sg); see assumptions of the check
def COV_Y_SIGN(h, sg):
    return 1


def COV_ORI_SIGN(h, sg):
    return h
