"""n06_net: state space, reference and closure model of check C06.

Family G of DESIGN.md as a transition system:

* a *unit* is a template (roles of points + an ordered list of candidate
  observations) instantiated on one placement of its points on the lattice
  {0,100,200}^2 (x {0,10,30} heights);
* a *state* of a unit is a subset of its candidate list (bit mask), the
  transition is "add one candidate observation";
* the reference decides for every state whether it is *determined*:
  the Jacobian of the reference observation functions (gnet.ref_value,
  differentiated numerically: central differences + Richardson) with respect
  to the coordinates of the new points, orientation unknowns eliminated, has
  full column rank with a safe margin (smallest singular value of the
  metre-scaled Jacobian >= SMIN_OK); states with a smallest singular value
  between SMIN_ZERO and SMIN_OK are *ill-conditioned* and excluded by
  construction (counted, never run);
* the closure model `closure()` says which points the documented
  approximate-coordinate strategy of gama-local must be able to compute from
  a set of known coordinates (doc/gama-local-adj.texi, node "Approximate
  coordinates", and the comments of lib/gnu_gama/local/acord/*.cpp).
"""
import math, itertools
import gnet
from gnet import Pt, Obs, Cluster, Net

ZERO_MENU = [0.0, 123.4567, 199.9999, 200.0001, 399.9999]
PARAMS = {"sigma-apr": 10, "conf-pr": 0.95, "tol-abs": 1000, "sigma-act": "apriori"}
PERT = 0.03            # +-3 cm
SMIN_OK = 0.15         # smallest singular value of the metre-scaled Jacobian: determined
SMIN_ZERO = 1e-7       # below: singular
RHO = 100.0            # angular rows are scaled to metres at 100 m
SIG_ANG = 10.0         # cc
SIG_LIN = 5.0          # mm
CC2RAD = math.pi / 200.0 / 1e4
# gama's refresh tolerances of the dh reductions (test_linearization_visitor.cpp,
# refine_obsdh_reductions): 1mm/1e3 for slope distances, 0.1 cc for zenith angles
RED_TOL_LIN = 1e-6
RED_TOL_ANG = 0.1 * CC2RAD


# ---------------------------------------------------------------- candidates
def mk_obs(c):
    k = c[0]
    if k == "dir":  return Obs("direction", c[1], c[2], stdev=SIG_ANG)
    if k == "dist": return Obs("distance", c[1], c[2], stdev=SIG_LIN)
    if k == "ang":  return Obs("angle", c[1], None, bs=c[2], fs=c[3], stdev=SIG_ANG)
    if k == "azi":  return Obs("azimuth", c[1], c[2], stdev=SIG_ANG)      # c[3] (optional): 'first' = first in its cluster
    if k == "sd":   return Obs("s-distance", c[1], c[2], stdev=SIG_LIN, from_dh=c[3], to_dh=c[4])
    if k == "za":   return Obs("z-angle", c[1], c[2], stdev=SIG_ANG, from_dh=c[3], to_dh=c[4])
    if k == "dh":   return Obs("dh", c[1], c[2], stdev=SIG_LIN)
    if k == "vec":  return Obs("vec", c[1], c[2])
    if k == "xyz":  return Obs("coord", None, c[1], comps=c[2])
    raise ValueError(c)


def cand_str(c):
    return ":".join("" if v is None else str(v) for v in c)


def has_dh(c):
    return c[0] in ("sd", "za") and ((c[3] or 0.0) != 0.0 or (c[4] or 0.0) != 0.0) and (c[3] or 0.0) != (c[4] or 0.0)


class Unit:
    """template instance: name, dim (1: heights only, 2: xy, 3: xyz), points
    [(id,(x,y,z),'fix'|'new')], cands [tuple]"""
    def __init__(self, name, dim, points, cands):
        self.name = name; self.dim = dim; self.points = points; self.cands = cands
        self.C = {p[0]: tuple(float(v) for v in p[1]) for p in points}
        self.I = {p[0]: p[1] for p in points}           # integer coordinates
        # roles: 'fix' all coordinates fixed, 'new' all coordinates unknown,
        # 'newz' (3-D only) xy fixed, height unknown
        self.new = [p[0] for p in points if p[2] in ("new", "newz")]
        self.newz = [p[0] for p in points if p[2] == "newz"]
        self.fix = [p[0] for p in points if p[2] == "fix"]
        self.unk = []                                   # (pid, coordinate index)
        for p in self.new:
            if dim >= 2 and p not in self.newz: self.unk += [(p, 0), (p, 1)]
            if dim in (1, 3): self.unk.append((p, 2))
        self.groups = []                                # approximate-coordinate groups
        for p in self.new:
            if dim >= 2 and p not in self.newz: self.groups.append((p, "xy"))
            if dim in (1, 3): self.groups.append((p, "z"))
        self.need = {}
        for p in self.new:
            self.need[p] = (["x", "y"] if (dim >= 2 and p not in self.newz) else []) + (["z"] if dim in (1, 3) else [])
        self._rows = None

    frame = ("ne", "left-handed")       # axes-xy, angles of the input file (see to_frame)
    idrev = False                        # new points renamed so that their ids sort before the known ones

    def key(self):
        tag = ""
        if self.frame != ("ne", "left-handed"): tag += "[%s/%s]" % (self.frame[0], self.frame[1][0])
        if self.idrev: tag += "[idrev]"
        return self.name + tag + "@" + ";".join("%s=%d,%d,%d" % (p[0], p[1][0], p[1][1], p[1][2]) for p in self.points)

    # ---- reference Jacobian rows of every candidate (computed once)
    def rows(self):
        if self._rows is None:
            self._rows = [jac_rows(self, c) for c in self.cands]
        return self._rows

    def chosen(self, mask):
        return [c for i, c in enumerate(self.cands) if mask >> i & 1]


# ---------------------------------------------------------------- reference Jacobian
def _scalar_fns(c):
    """list of (function(C)->value, kind) for candidate c; kind 'a' angular (gon) / 'l' linear (m)"""
    o = mk_obs(c)
    k = c[0]
    if k == "vec":
        return [((lambda C, i=i: gnet.ref_value(o, C)[i]), "l") for i in range(3)]
    if k == "xyz":
        return [((lambda C, i=i: gnet.ref_value(o, C)[i]), "l") for i in range(len(c[2]))]
    return [((lambda C: gnet.ref_value(o, C)), "a" if k in ("dir", "ang", "azi", "za") else "l")]


def _wrapdiff(a, b):
    d = a - b
    return (d + 200.0) % 400.0 - 200.0


def jac_rows(unit, c):
    """rows (one per scalar component) of d obs / d unknown coordinate at the
    true coordinates: metres -> metres, angles in radians (unscaled)."""
    out = []
    for fn, kind in _scalar_fns(c):
        row = []
        for (pid, ci) in unit.unk:
            def val(h):
                C = dict(unit.C)
                p = list(C[pid]); p[ci] += h; C[pid] = tuple(p)
                return fn(C)
            def cd(h):
                a, b = val(h), val(-h)
                d = _wrapdiff(a, b) if kind == "a" else a - b
                return d / (2 * h)
            d1, d2 = cd(0.02), cd(0.01)
            d = (4 * d2 - d1) / 3.0
            if kind == "a": d *= math.pi / 200.0
            row.append(d)
        out.append((kind, row))
    return out


def reduced_rows(unit, mask):
    """coordinate-only rows of the state, metre scaled; the orientation unknown
    of every direction set is eliminated (differences to the first direction)"""
    rows = unit.rows()
    R = []
    first = {}
    for i, c in enumerate(unit.cands):
        if not mask >> i & 1: continue
        for kind, r in rows[i]:
            s = RHO if kind == "a" else 1.0
            if c[0] == "dir":
                if c[1] not in first:
                    first[c[1]] = r
                    continue
                f = first[c[1]]
                R.append([(a - b) * s for a, b in zip(r, f)])
            else:
                R.append([a * s for a in r])
    return R


def sym_eig_min(G):
    """smallest eigenvalue of a small symmetric matrix (cyclic Jacobi)"""
    n = len(G)
    A = [row[:] for row in G]
    for _ in range(60):
        off = sum(A[i][j] * A[i][j] for i in range(n) for j in range(i + 1, n))
        if off < 1e-26: break
        for p in range(n):
            for q in range(p + 1, n):
                if abs(A[p][q]) < 1e-300: continue
                th = (A[q][q] - A[p][p]) / (2 * A[p][q])
                t = (1.0 if th >= 0 else -1.0) / (abs(th) + math.sqrt(th * th + 1))
                c = 1 / math.sqrt(t * t + 1); s = t * c
                for k in range(n):
                    akp, akq = A[k][p], A[k][q]
                    A[k][p] = c * akp - s * akq; A[k][q] = s * akp + c * akq
                for k in range(n):
                    apk, aqk = A[p][k], A[q][k]
                    A[p][k] = c * apk - s * aqk; A[q][k] = s * apk + c * aqk
    return min(A[i][i] for i in range(n))


def smin(unit, mask):
    """smallest singular value of the reduced, metre-scaled Jacobian"""
    R = reduced_rows(unit, mask)
    n = len(unit.unk)
    if len(R) < n: return 0.0
    G = [[sum(r[i] * r[j] for r in R) for j in range(n)] for i in range(n)]
    e = sym_eig_min(G)
    return math.sqrt(e) if e > 0 else 0.0


def lone_direction(unit, mask):
    """a station with exactly one direction (to distinct targets): gama drops
    the direction in revision_observations (a single direction carries no
    information); such states are not canonical and are never run"""
    cnt = {}
    for c in unit.chosen(mask):
        if c[0] == "dir": cnt.setdefault(c[1], set()).add(c[2])
    return any(len(v) < 2 for v in cnt.values())


def classify(unit, mask):
    """'lone' | 'under' | 'singular' | 'illcond' | 'det' , smin"""
    if lone_direction(unit, mask): return "lone", 0.0
    s = smin(unit, mask)
    if s >= SMIN_OK: return "det", s
    if s <= SMIN_ZERO: return "singular", s
    return "illcond", s


# ---------------------------------------------------------------- sensitivity of the LS solution (dh bound)
def _solve(M, B):
    """Gauss-Jordan with partial pivoting: returns M^-1 B (lists of lists)"""
    n = len(M); m = len(B[0])
    A = [M[i][:] + B[i][:] for i in range(n)]
    for c in range(n):
        p = max(range(c, n), key=lambda r: abs(A[r][c]))
        A[c], A[p] = A[p], A[c]
        d = A[c][c]
        A[c] = [v / d for v in A[c]]
        for r in range(n):
            if r != c and A[r][c] != 0.0:
                f = A[r][c]
                A[r] = [a - f * b for a, b in zip(A[r], A[c])]
    return [row[n:] for row in A]


def dh_bounds(unit, mask):
    """first-order bound of the effect of un-refreshed dh reductions (each up
    to gama's refresh tolerance) on the adjusted coordinates [m] and on the
    residuals [mm / cc]: returns (coordinate bound, {obs-key: residual bound})"""
    rows = unit.rows()
    st = []                  # stations with directions
    for c in unit.chosen(mask):
        if c[0] == "dir" and c[1] not in st: st.append(c[1])
    nc = len(unit.unk); n = nc + len(st)
    A = []; sig = []; tol = []; keys = []
    for i, c in enumerate(unit.cands):
        if not mask >> i & 1: continue
        for j, (kind, r) in enumerate(rows[i]):
            row = list(r) + [0.0] * len(st)
            if c[0] == "dir": row[nc + st.index(c[1])] = -1.0
            s = SIG_ANG * CC2RAD if kind == "a" else SIG_LIN * 1e-3
            A.append(row); sig.append(s); keys.append((i, j, kind))
            if has_dh(c): tol.append(RED_TOL_ANG if kind == "a" else RED_TOL_LIN)
            else: tol.append(0.0)
    m = len(A)
    At = [[A[k][i] / sig[k] for i in range(n)] for k in range(m)]
    N = [[sum(At[k][i] * At[k][j] for k in range(m)) for j in range(n)] for i in range(n)]
    Gt = _solve(N, [[At[k][i] for k in range(m)] for i in range(n)])     # n x m, whitened
    G = [[Gt[i][k] / sig[k] for k in range(m)] for i in range(n)]
    cb = max(sum(abs(G[i][k]) * tol[k] for k in range(m)) for i in range(nc))
    rb = {}
    for k in range(m):
        b = sum(abs(sum(A[k][i] * G[i][l] for i in range(n)) - (1.0 if l == k else 0.0)) * tol[l] for l in range(m))
        i, j, kind = keys[k]
        rb[(i, j)] = b / CC2RAD if kind == "a" else b * 1e3
    return cb, rb


# ---------------------------------------------------------------- exact integer geometry
def collinear(a, b, c):
    return (b[0] - a[0]) * (c[1] - a[1]) - (b[1] - a[1]) * (c[0] - a[0]) == 0


def concyclic(a, b, c, d):
    """exact: 4 points on one circle or line"""
    def row(p): return [p[0] * p[0] + p[1] * p[1], p[0], p[1], 1]
    M = [row(a), row(b), row(c), row(d)]
    def det(m):
        if len(m) == 1: return m[0][0]
        s = 0
        for j in range(len(m)):
            if m[0][j] == 0: continue
            s += (-1) ** j * m[0][j] * det([r[:j] + r[j + 1:] for r in m[1:]])
        return s
    return det(M) == 0


# ---------------------------------------------------------------- closure model
def closure(unit, mask, known_xy, known_z, trace=None):
    """Which coordinates must the documented approximate-coordinate strategy
    be able to compute?  known_xy / known_z: ids with given or approximate
    coordinates.  Returns (kxy, kz).

    Rules (manual node "Approximate coordinates" + acord comments):
     Z1 levelling: a height difference carries a known height to its other end
        (acordhdiff.cpp);
     Z2 vector: a vector carries known xyz to its other end (acordvector.cpp:
        both xy and z of one end are required);
     Z3 trigonometric height (acordzderived.cpp): a zenith angle S->T together
        with a horizontal distance S->T, a slope distance S->T, or known xy of
        both ends, carries a known height between S and T (Z3t: station ->
        target; Z3s: target -> station, a distance being observed from the
        station; Z3x: target -> station through known xy only);
     X1 polar: outer bearing from a known point + distance to the same point;
     X2 intersection of two outer bearings from different known points that
        are not collinear with the computed point;
     X3 resection: inner angles at the computed point to three known points,
        the four points not on one circle;
     X4 two-solution intersections (two distances, bearing + distance from
        another point) made unique by a further distance whose misfit on the
        rejected solution exceeds 1 m (g2d_helper.cpp: "Tolerance for
        selection of unique solution ... distance: 1 m");
     X5 local coordinate system + similarity transformation onto two known
        points (manual: "tries to compute coordinates of unresolved points in
        a local coordinate system"), the local system being defined by an
        observed distance;
     observed coordinates are approximate coordinates (given in the input).
    """
    I = unit.I
    obs = unit.chosen(mask)
    kxy = set(known_xy); kz = set(known_z)
    if unit.dim == 1: kxy = set()
    for c in obs:
        if c[0] == "xyz":
            if "x" in c[2] and "y" in c[2]: kxy.add(c[1])
            if "z" in c[2]: kz.add(c[1])
    allp = [p[0] for p in unit.points]
    want_xy = unit.dim >= 2
    want_z = unit.dim in (1, 3)

    def note(rule, p):
        if trace is not None: trace.append((rule, p))

    def z_pass(weak):
        """weak=False: Z1, Z2, Z3t (target height from a station of known
        height), Z3s (station height from a target of known height, a distance
        or slope distance being observed from that station);
        weak=True: Z3x (station height from a target of known height through
        the known xy of both ends only, no distance observed from the station)"""
        ch = False
        for c in obs:
            if weak:
                if c[0] != "za": continue
                a, b = c[1], c[2]
                if a in kz or b not in kz: continue
                if a in kxy and b in kxy:
                    kz.add(a); note("Z3x", a); ch = True
                continue
            if c[0] == "dh":
                a, b = c[1], c[2]
                if (a in kz) != (b in kz):
                    kz.add(a); kz.add(b); note("Z1", (a, b)); ch = True
            elif c[0] == "vec" and unit.dim == 3:
                a, b = c[1], c[2]
                ka = a in kz and a in kxy; kb = b in kz and b in kxy
                if ka != kb:
                    for p in (a, b): kz.add(p); kxy.add(p)
                    note("Z2", (a, b)); ch = True
            elif c[0] == "za":
                a, b = c[1], c[2]
                if (a in kz) == (b in kz): continue
                match = any(d[0] in ("dist", "sd") and d[1] == a and d[2] == b for d in obs)
                if a in kz:
                    # acordzderived.cpp, second part: "with known standpoint height we
                    # compute heights of all targets without known coordinate z"
                    if match or (a in kxy and b in kxy):
                        kz.add(b); note("Z3t", b); ch = True
                else:
                    # first part: needs a zenith angle and a distance / slope distance
                    # observed from the station to targets of known height
                    anyd = any(d[0] in ("dist", "sd") and d[1] == a and d[2] in kz for d in obs)
                    if anyd and (match or (a in kxy and b in kxy)):
                        kz.add(a); note("Z3s", a); ch = True
        return ch

    def hdists(K):
        """{(P, K): sources} pairs with a usable horizontal distance; sources:
        'dist' observed, 'sdza' slope distance * sin(zenith angle), 'sdh' slope
        distance reduced with the known heights of both ends"""
        out = {}
        def add(a, b, src):
            out.setdefault((a, b), set()).add(src); out.setdefault((b, a), set()).add(src)
        for c in obs:
            if c[0] == "dist":
                add(c[1], c[2], "dist")
            elif c[0] == "sd":
                if c[1] in kz and c[2] in kz and unit.dim == 3: add(c[1], c[2], "sdh")
                for d in obs:
                    if d[0] == "za" and d[1] == c[1] and d[2] == c[2]: add(c[1], c[2], "sdza")
        return out

    def bearings(K):
        """set of (S, P): outer bearing from known S to P"""
        out = set()
        for c in obs:
            if c[0] == "dir" and c[1] in K:
                if any(d[0] == "dir" and d[1] == c[1] and d[2] != c[2] and d[2] in K for d in obs):
                    out.add((c[1], c[2]))
            elif c[0] == "azi" and c[1] in K:
                out.add((c[1], c[2]))
            elif c[0] == "ang" and c[1] in K:
                if c[2] in K: out.add((c[1], c[3]))
                if c[3] in K: out.add((c[1], c[2]))
        return out

    def inner(P, K):
        """list of (K1,K2): inner angles at P between known points"""
        out = []
        t = sorted(set(c[2] for c in obs if c[0] == "dir" and c[1] == P and c[2] in K))
        out += list(itertools.combinations(t, 2))
        for c in obs:
            if c[0] == "ang" and c[1] == P and c[2] in K and c[3] in K: out.append((c[2], c[3]))
        return out

    def mirror(p, a, b):
        """mirror image of p across line ab (float)"""
        ax, ay = a[0], a[1]; dx, dy = b[0] - ax, b[1] - ay
        t = ((p[0] - ax) * dx + (p[1] - ay) * dy) / float(dx * dx + dy * dy)
        fx, fy = ax + t * dx, ay + t * dy
        return (2 * fx - p[0], 2 * fy - p[1])

    def xy_try(P, K, coords):
        B = [s for (s, p) in bearings(K) if p == P]
        HD = hdists(K)
        D = sorted(set(k for (p, k) in HD if p == P and k in K))
        def tag(rule, ks):
            # 'h': a slope distance reduced with known heights takes part (acordintersection.cpp:
            # "slope distance reduced to horizontal if heights are available")
            return rule + ("h" if any("sdh" in HD[(P, k)] for k in ks) else "")
        # X1 polar
        for s in B:
            if s in D: return tag("X1", [s])
        # azimuth from the computed point + distance (acordazimuth.cpp works both ways)
        for c in obs:
            if c[0] == "azi" and c[1] == P and c[2] in K and c[2] in D: return tag("X1", [c[2]])
        # X2 two bearings
        for s1, s2 in itertools.combinations(sorted(set(B)), 2):
            if not collinear(coords[s1], coords[s2], coords[P]): return "X2"
        # X3 resection
        IA = inner(P, K)
        for (a, b), (c, d) in itertools.combinations(IA, 2):
            pts = sorted(set([a, b, c, d]))
            if len(pts) < 3: continue
            for tri in itertools.combinations(pts, 3):
                if collinear(coords[tri[0]], coords[tri[1]], coords[tri[2]]): continue
                if not concyclic(coords[tri[0]], coords[tri[1]], coords[tri[2]], coords[P]):
                    if any(collinear(coords[P], coords[u], coords[v]) for u, v in itertools.combinations(tri, 2)):
                        continue
                    return "X3"
        # X4 two distances + third distance
        for k1, k2 in itertools.combinations(D, 2):
            if collinear(coords[k1], coords[k2], coords[P]): continue
            m = mirror(coords[P], coords[k1], coords[k2])
            for k3 in D:
                if k3 in (k1, k2): continue
                d_true = math.hypot(coords[P][0] - coords[k3][0], coords[P][1] - coords[k3][1])
                d_mir = math.hypot(m[0] - coords[k3][0], m[1] - coords[k3][1])
                if abs(d_true - d_mir) > 10.0: return tag("X4", [k1, k2, k3])
        return None

    def xy_pass(K, coords, targets):
        ch = False
        for P in targets:
            if P in K: continue
            r = xy_try(P, K, coords)
            if r:
                K.add(P); note(r, P); ch = True
        # vectors in 2D networks are not generated; 3D vectors handled in z_pass
        return ch

    def local_frames():
        """X5: try every observed distance with an unknown endpoint as a local frame"""
        for c in obs:
            if c[0] != "dist": continue
            a, b = c[1], c[2]
            if a in kxy and b in kxy: continue
            K = set([a, b])
            while xy_pass(K, I, allp): pass
            ident = [p for p in K if p in kxy]
            gain = [p for p in K if p not in kxy]
            if len(ident) >= 2 and gain:
                return gain
        return []

    while True:
        ch = False
        if want_z:
            while z_pass(False): ch = True
            if not ch and z_pass(True): ch = True
        if want_xy:
            while xy_pass(kxy, I, allp): ch = True
            if not ch:
                g = local_frames()
                if g:
                    for p in g: kxy.add(p); note("X5", p)
                    ch = True
        if not ch: break
    return kxy, kz


def resolvable(unit, mask, omitted):
    """omitted: set of groups (pid,'xy'|'z') written without approximate values"""
    kxy = set(unit.fix) | set(p for p in unit.new if (p, "xy") not in omitted)     # includes the 'newz' points
    kz = set(unit.fix) | set(p for p in unit.new if (p, "z") not in omitted)
    tr = []
    fxy, fz = closure(unit, mask, kxy, kz, trace=tr)
    for (p, g) in omitted:
        if g == "xy" and p not in fxy: return False, ""
        if g == "z" and p not in fz: return False, ""
    return True, "+".join(sorted(set(t[0] for t in tr))) or "given"


# ---------------------------------------------------------------- network of a case
def station_order(unit, mask):
    st = []
    for c in unit.chosen(mask):
        if c[0] in ("dir", "dist", "ang", "azi", "sd", "za") and c[1] not in st: st.append(c[1])
    return st


# ---------------------------------------------------------------- coordinate frames
# The unit lives in the world frame of gnet's reference functions: x = north, y = east,
# bearings / directions / angles / azimuths clockwise.  doc/gama-local-input.texi
# ("Network definition"): axes-xy="ab": axis x points to a, axis y to b (n, e, s, w);
# angles="right-handed": directions, angles (and azimuths) are counted counterclockwise.
UVEC = {"n": (0, 1), "s": (0, -1), "e": (1, 0), "w": (-1, 0)}      # (east, north) components
AXES = ["ne", "sw", "es", "wn", "en", "nw", "se", "ws"]            # first four left-handed
SENSES = ["left-handed", "right-handed"]
FRAMES = [(a, s) for a in AXES for s in SENSES]


def fxy(frame, X, Y):
    """world (X north, Y east) -> file (x, y) of the frame; linear, no translation"""
    ux, uy = UVEC[frame[0][0]], UVEC[frame[0][1]]
    return (ux[0] * Y + ux[1] * X, uy[0] * Y + uy[1] * X)


def to_frame(net, frame):
    """rewrite a filled world-frame Net into the frame (coordinates, approximate
    offsets, vectors, observed coordinates, sense of the horizontal angles)"""
    if frame == ("ne", "left-handed"): return net
    rh = frame[1] == "right-handed"
    for p in net.points:
        if p.x is not None: p.x, p.y = fxy(frame, p.x, p.y)
        if isinstance(p.ax, tuple): p.ax = fxy(frame, p.ax[0], p.ax[1])
    for c in net.clusters:
        for o in c.obs:
            if o.kind in ("direction", "angle", "azimuth") and rh:
                o.val = (400.0 - o.val) % 400.0
            elif o.kind == "vec":
                dx, dy = fxy(frame, o.val[0], o.val[1]); o.val = (dx, dy, o.val[2])
            elif o.kind == "coord" and "x" in o.comps:
                x, y = fxy(frame, o.val[0], o.val[1]); o.val = (x, y) + tuple(o.val[2:])
    net.attrs = {"axes-xy": frame[0], "angles": frame[1]}
    return net


def truth_in_frame(unit):
    out = {}
    for p in unit.new:
        X, Y, Z = unit.C[p]
        x, y = fxy(unit.frame, X, Y)
        out[p] = (x, y, Z)
    return out


SPLIT_EPS = 1e-9      # gon = 1e-5 cc; 4e-9 m at 283 m


def split_modes(unit, mask):
    """extra circle-zero modes of a state (templates with unit.zsplit): every station's orientation
    shift exactly 200 / 0 gon x every sign pattern of +-SPLIT_EPS on its readings to known points
    (the number of known targets seen by a station must be >= 4); [] otherwise"""
    if not getattr(unit, "zsplit", False): return []
    m = {}
    for c in unit.chosen(mask):
        if c[0] == "dir" and c[2] in unit.fix: m[c[1]] = m.get(c[1], 0) + 1
    mm = max(m.values()) if m else 0
    if mm < 4: return []
    return [len(ZERO_MENU) + k for k in range(2 * (1 << mm))]


def group_orders(unit, mask):
    """all orders of the cluster groups present in the state: the station
    clusters (one block, stations in order of first appearance), the
    height-differences, the vectors and the coordinates cluster"""
    kinds = []
    for c in unit.chosen(mask):
        g = {"dh": "hd", "vec": "vec", "xyz": "xyz"}.get(c[0], "obs")
        if g not in kinds: kinds.append(g)
    return list(itertools.permutations(kinds))


def build_net(unit, mask, variant, zrot, order=0):
    """variant: ('E',) | ('P', signs) one sign per unknown coordinate |
    ('O', omitted groups, ..);  zrot: rotation of the zero menu; order: index
    into group_orders()"""
    dim = unit.dim
    pts = []
    sgn = {}
    if variant[0] == "P":
        for (u, s) in zip(unit.unk, variant[1]): sgn[u] = s * PERT
    om = variant[1] if variant[0] == "O" else ()
    for (pid, (x, y, z), role) in unit.points:
        st = "fix" if role == "fix" else "adj"
        sxy = "fix" if role in ("fix", "newz") else "adj"
        p = Pt(pid, float(x) if dim >= 2 else None, float(y) if dim >= 2 else None,
               float(z) if dim in (1, 3) else None,
               xy=sxy if dim >= 2 else None, zs=st if dim in (1, 3) else None)
        if role in ("new", "newz"):
            if variant[0] == "P":
                if dim >= 2 and role == "new": p.ax = (sgn[(pid, 0)], sgn[(pid, 1)])
                if dim in (1, 3): p.az = float(sgn[(pid, 2)])
            elif variant[0] == "O":
                if (pid, "xy") in om: p.ax = False
                if (pid, "z") in om: p.az = False
        pts.append(p)
    chosen = unit.chosen(mask)
    groups = {}
    sts = station_order(unit, mask)
    for si, s in enumerate(sts):
        cs = [c for c in chosen if c[0] in ("dir", "dist", "ang", "azi", "sd", "za") and c[1] == s]
        cs = [c for c in cs if c[0] == "azi" and len(c) > 3 and c[3] == "first"] + \
             [c for c in cs if not (c[0] == "azi" and len(c) > 3 and c[3] == "first")]
        ol = [mk_obs(c) for c in cs]
        zero = ZERO_MENU[(si + zrot) % len(ZERO_MENU)]
        if zrot >= len(ZERO_MENU):
            # split mode (see split_modes): the orientation shift of the circle is exactly 200 gon
            # (or 0 = 400 gon) and the readings to the known points carry +-SPLIT_EPS, far below the
            # tolerances of the oracle, so that bearing - reading falls on both sides of the branch cut
            k = zrot - len(ZERO_MENU)
            zero = (200.0, 0.0)[k % 2]
            pat = k // 2
            j = 0
            for c, o in zip(cs, ol):
                if c[0] == "dir" and c[2] in unit.fix:
                    o.err = SPLIT_EPS if (pat >> j) & 1 else -SPLIT_EPS
                    j += 1
        groups.setdefault("obs", []).append(Cluster("obs", ol, frm=s, zero=zero))
    hd = [mk_obs(c) for c in chosen if c[0] == "dh"]
    if hd: groups["hd"] = [Cluster("height-differences", hd)]
    vc = [mk_obs(c) for c in chosen if c[0] == "vec"]
    if vc: groups["vec"] = [Cluster("vectors", vc, cov=gnet.band_cov(3 * len(vc), 0, lambda i, j: SIG_LIN ** 2))]
    co = [mk_obs(c) for c in chosen if c[0] == "xyz"]
    if co:
        d = sum(o.dim() for o in co)
        groups["xyz"] = [Cluster("coordinates", co, cov=gnet.band_cov(d, 0, lambda i, j: SIG_LIN ** 2))]
    orders = group_orders(unit, mask)
    clusters = []
    for g in orders[order % len(orders)]: clusters += groups[g]
    net = Net(pts, clusters, **PARAMS)
    net.description = "C06 %s mask=%d" % (unit.key(), mask)
    gnet.fill_values(net)
    return to_frame(net, unit.frame)


def has_directions(unit, mask):
    return any(c[0] == "dir" for c in unit.chosen(mask))


def expected_obs(unit, mask):
    """multiset of (xml tag, from, to/left, right) of the scalar observations of the state"""
    out = []
    tag = {"dir": "direction", "dist": "distance", "azi": "azimuth", "sd": "slope-distance",
           "za": "zenith-angle", "dh": "height-diff"}
    for i, c in enumerate(unit.cands):
        if not mask >> i & 1: continue
        if c[0] == "ang": out.append(("angle", c[1], c[2], c[3], i, 0))
        elif c[0] == "vec":
            for j, t in enumerate(("dx", "dy", "dz")): out.append((t, c[1], c[2], None, i, j))
        elif c[0] == "xyz":
            for j, ch in enumerate(c[2]): out.append(("coordinate-" + ch, c[1], None, None, i, j))
        else: out.append((tag[c[0]], c[1], c[2], None, i, 0))
    return out
