"""n08_check: network-level part of C08 (datum choice changes only the datum).

worker(item)   one (family, constraint mask): classify exactly, run gama-local
               with the four algorithms, reduce each result to invariants.
evaluate(...)  compare all admissible sets x algorithms of one family.
"""
import math, os, sys
sys.path.insert(0, os.path.dirname(os.path.abspath(__file__)))
import gnet, n08_ref, n08_gen, n08_run, n08_dangle, n08_iter
from gnet import Obs
from fractions import Fraction as Fr

ALGS = gnet.ALGS
ARGS = ["--iterations", "0"]

TOL_LEN = 1e-6        # m      (inter-point distances, height differences, adjusted lengths)
TOL_ANG = 1e-6        # gon    (1e-6 gon = 1.6e-8 rad = 3 um at 200 m)
TOL_SD = 1e-6         # mm / cc (standard deviations of adjusted observations), + 1e-8 relative
TOL_PVV = 3e-7        # relative ([pvv] is printed with 8 significant digits)
TOL_3DEC = 2.1e-3     # qrr, f, std-residual are printed with 3 decimals (two units of the last digit)
TOL_ORTH = 1e-8       # m, |n_S . dx_S| with n_S scaled to max-abs 1
TOL_SAME = 1e-8       # m, same network + same datum (dangling point removed) -> same coordinates

_cache = {}


def _family(tier, fi):
    k = (tier, fi)
    if k not in _cache:
        F = n08_gen.families(tier)
        f = F[fi]
        M = n08_ref.Model(f.net)
        slots = n08_gen.constraint_slots(f.net)
        inv = invariants(f.net, M)
        _cache[k] = (f, M, slots, inv)
    return _cache[k]


def invariants(net, M):
    """pseudo-observations between the points whose exact gradient is
    orthogonal to the exact null space -> list of Obs (kind, ids)"""
    out = []
    pts = net.points
    ids2 = [p.id for p in pts if p.x is not None and p.xy]
    ids3 = [p.id for p in pts if p.x is not None and p.xy and p.zs]
    idsz = [p.id for p in pts if p.zs]
    cand = []
    import itertools
    for a, b in itertools.combinations(ids2, 2):
        cand.append(Obs("distance", a, b))
    for a, b in itertools.combinations(ids3, 2):
        cand.append(Obs("s-distance", a, b))
    for a, b in itertools.combinations(idsz, 2):
        cand.append(Obs("dh", a, b))
    for s in ids2:
        oth = [t for t in ids2 if t != s]
        for b, f in itertools.combinations(oth, 2):
            cand.append(Obs("angle", s, None, bs=b, fs=f))
    for o in cand:
        row = n08_ref.exact_row(net, None, o, None)
        if any(k not in M.index for k in row):
            continue
        ok = True
        for v in M.N:
            if sum(c * v[M.index[k]] for k, c in row.items()) != 0:
                ok = False; break
        if ok:
            out.append(o)
    return out


def classify_mask(M, net, slots, mask):
    """rank of the null space restricted to the constrained coordinates"""
    S = []
    for i, (pid, w) in enumerate(slots):
        if (mask >> i) & 1:
            for t in (("x", "y") if w == "xy" else ("z",)):
                if (t, pid) in M.index: S.append(M.index[(t, pid)])
    if M.d == 0:
        return S, 0
    NS = [[v[i] for i in S] for v in M.N]
    return S, (n08_ref.rank(NS, len(S)) if S else 0)


def _gram_schmidt(V):
    Q = []
    for v in V:
        w = list(v)
        for _ in range(2):
            for q in Q:
                c = sum(a * b for a, b in zip(w, q))
                w = [a - c * b for a, b in zip(w, q)]
        nrm = math.sqrt(sum(a * a for a in w))
        Q.append([a / nrm for a in w])
    return Q


def _min_eig_sym(G):
    """smallest eigenvalue of a small symmetric matrix (cyclic Jacobi)"""
    n = len(G)
    A = [row[:] for row in G]
    for _ in range(60):
        off = sum(A[i][j] ** 2 for i in range(n) for j in range(n) if i != j)
        if off < 1e-30: break
        for p in range(n):
            for q in range(p + 1, n):
                if abs(A[p][q]) < 1e-300: continue
                th = (A[q][q] - A[p][p]) / (2 * A[p][q])
                t = (1 if th >= 0 else -1) / (abs(th) + math.sqrt(th * th + 1))
                c = 1 / math.sqrt(t * t + 1); sn = t * c
                for k in range(n):
                    akp, akq = A[k][p], A[k][q]
                    A[k][p] = c * akp - sn * akq; A[k][q] = sn * akp + c * akq
                for k in range(n):
                    apk, aqk = A[p][k], A[q][k]
                    A[p][k] = c * apk - sn * aqk; A[q][k] = sn * apk + c * aqk
    return min(A[i][i] for i in range(n))


def datum_strength(M, S):
    """smallest singular value of Q_S, Q = orthonormal basis of the null space
    on the coordinate unknowns: 1/strength bounds how much the constraint set
    amplifies (null-space components of) the corrections.  A priori, from the
    geometry only."""
    if M.d == 0: return 1.0
    cj = [j for j, (t, _) in enumerate(M.cols) if t != "o"]
    V = [[float(v[j]) for j in cj] for v in M.N]
    Q = _gram_schmidt(V)
    pos = {j: i for i, j in enumerate(cj)}
    QS = [[q[pos[j]] for j in S] for q in Q]          # d x |S|
    G = [[sum(a * b for a, b in zip(QS[i], QS[k])) for k in range(M.d)] for i in range(M.d)]
    return math.sqrt(max(0.0, _min_eig_sym(G)))


def angdiff(a, b):
    d = math.fmod(a - b, 400.0)
    if d > 200: d -= 400
    if d < -200: d += 400
    return d


def is_iter(var):
    return var is not None and var[0] == "iter"


def reduce_result(D, net, M, S, inv, it=None):
    """digest of one run -> comparable record.  it: None, or for a run with
    linearization iterations dict(net=network as written, approx=<approximate>
    of the result = last linearization point, iters=number of iterations,
    gen=names of the datum generators, m0=sigma-apr)"""
    R = {"cls": D["cls"], "rc": D["rc"], "nonfinite": D["nonfinite"], "err": D.get("err"),
         "removed": D.get("removed"), "diag": D.get("diag")}
    if D["cls"] != "adj":
        return R
    R["scal"] = (D["defect"], D["dof"], D["n"], D["m"])
    R["pvv"] = D["pvv"]
    adjv = []; sdv = []; res = []; q3 = []
    kinds = []
    for (tag, frm, to, le, ri, ob, ad, sd, qrr, f, sr) in D["obs"]:
        ang = tag in ("direction", "angle", "zenith-angle", "azimuth")
        kinds.append("a" if ang else "l")
        adjv.append(ad); sdv.append(sd)
        res.append(angdiff(ad, ob) if ang else ad - ob)
        q3.append((qrr, f, sr))
    R["kinds"] = kinds; R["adj"] = adjv; R["sd"] = sdv; R["res"] = res; R["q3"] = q3
    # coordinates
    C = {}
    missing = []
    for p in net.points:
        a = D["adjusted"].get(p.id, {}); fx = D["fixed"].get(p.id, {})
        x = a.get("x", fx.get("x", p.x if p.xy == "fix" else None))
        y = a.get("y", fx.get("y", p.y if p.xy == "fix" else None))
        z = a.get("z", fx.get("z", p.z if p.zs == "fix" else None))
        if (p.xy and (x is None or y is None)) or (p.zs and z is None):
            missing.append(p.id)
        C[p.id] = (x, y, z)
    R["missing"] = missing
    if missing:
        return R
    iv = []
    for o in inv:
        iv.append(gnet.ref_value(o, C))
    R["inv"] = iv
    R["xyz"] = [v for p in net.points for v in C[p.id] if v is not None]
    # marks printed by gama: constrained flags must be the ones asked for
    flags = []
    for p in net.points:
        a = D["adjusted"].get(p.id, {})
        flags.append((p.id, bool(a.get("con_x")), bool(a.get("con_z"))))
    R["flags"] = flags
    P = {p.id: p for p in net.points}
    if it is not None:
        # corrections of the constrained coordinates in the LAST linearization: adjusted - last
        # approximate value (printed with 6 decimals), against the datum generators at that point
        R["iters"] = it["iters"]
        A = {}
        for p in net.points:
            a = it["approx"].get(p.id, {})
            A[p.id] = (a.get("x", a.get("X")), a.get("y", a.get("Y")), a.get("z", a.get("Z")))
        dx = []; okA = True
        for j in S:
            t, pid = M.cols[j]
            a = A[pid]["xyz".index(t)]
            if a is None: okA = False; break
            dx.append(C[pid]["xyz".index(t)] - a)
        R["approx_missing"] = not okA
        orth = 0.0; otol = TOL_ORTH
        if okA:
            for g in it["gen"]:
                ns = [n08_iter.generator_value(g, M.cols[j][0], A[M.cols[j][1]]) for j in S]
                mx = max((abs(a) for a in ns), default=0.0)
                if mx == 0: continue
                orth = max(orth, abs(sum(a * b for a, b in zip(ns, dx))) / mx)
                otol = max(otol, TOL_ORTH + n08_iter.ROUND_APPROX * sum(abs(a) for a in ns) / mx)
            R["dxnorm"] = math.sqrt(sum(v * v for v in dx))
        R["orth"] = orth; R["orth_tol"] = otol
        # translations are the same null vectors at every linearization point and every iteration
        # regularises over the same set S: the TOTAL correction (adjusted - given approximate value)
        # of the constrained coordinates sums to zero per axis, at full precision
        o0 = 0.0
        for ax in "xyz":
            if ("t" + ax) not in it["gen"]: continue
            tot = [C[M.cols[j][1]]["xyz".index(ax)] - it["given"][M.cols[j][1]]["xyz".index(ax)] for j in S if M.cols[j][0] == ax]
            if tot: o0 = max(o0, abs(sum(tot)))
        R["orth0"] = o0
        R["dx0norm"] = math.sqrt(sum((C[M.cols[j][1]]["xyz".index(M.cols[j][0])] - it["given"][M.cols[j][1]]["xyz".index(M.cols[j][0])]) ** 2 for j in S))
        step = 0.0
        for p in net.points:
            for k in range(3):
                if C[p.id][k] is not None and A[p.id][k] is not None:
                    step = max(step, abs(C[p.id][k] - A[p.id][k]))
        R["laststep"] = step
        R["miscl"], R["E"] = n08_iter.misclosure(it["net"], C, D["obs"], it["m0"])
        R["maxcorr"] = 0.0
        return R
    # corrections of the constrained coordinates against the exact null space
    dx = []
    for j in S:
        t, pid = M.cols[j]
        p = P[pid]
        tru = {"x": p.x, "y": p.y, "z": p.z}[t]
        dx.append(C[pid]["xyz".index(t)] - tru)
    R["dxnorm"] = math.sqrt(sum(v * v for v in dx))
    orth = 0.0
    for v in M.N:
        ns = [float(v[j]) for j in S]
        mx = max((abs(a) for a in ns), default=0.0)
        if mx == 0: continue
        orth = max(orth, abs(sum(a * b for a, b in zip(ns, dx))) / mx)
    R["orth"] = orth
    # max correction of any coordinate (size of the linearisation regime)
    mc = 0.0
    for p in net.points:
        x, y, z = C[p.id]
        if p.xy in ("adj", "con"): mc = max(mc, abs(x - p.x), abs(y - p.y))
        if p.zs in ("adj", "con"): mc = max(mc, abs(z - p.z))
    R["maxcorr"] = mc
    return R


def _vtuple(var):
    return None if var is None else tuple(var)


def build_net(tier, fi, mask, var=None):
    """-> (family network with the constraint set applied, network written to
    the input = the same + the dangling point of the variant / with the poor
    approximate coordinates of the iterated variant)"""
    f, M, slots, inv = _family(tier, fi)
    base = n08_gen.apply_constraints(f.net, slots, mask)
    net = base
    if is_iter(var):
        net = n08_iter.apply(base, _vtuple(var))
    elif var is not None:
        net, pid = n08_dangle.apply(base, _vtuple(var))
    gnet.fill_values(net)
    return base, net


def _run_iterated(name, gkf, wd, exe):
    """like n08_run.run_case, iterations enabled; additionally the last
    linearization point and the number of iterations of every run"""
    import re
    out = {}; extra = {}
    nm = "c%d_%s" % (os.getpid(), re.sub(r"\W", "_", name)[:60])
    for alg in ALGS:
        r = gnet.run_gama(exe, gkf, wd, nm, ["--algorithm", alg] + n08_iter.RUN_ARGS, want=("xml", "text"))
        out[alg] = n08_run.digest(r)
        ex = {"approx": {}, "iters": None}
        if out[alg]["cls"] == "adj":
            ex["approx"] = gnet.parse_result(r.xml).approx
            m = re.search(r"<linearization-iterations>\s*(\d+)", r.xml)
            ex["iters"] = int(m.group(1)) if m else None
        extra[alg] = ex
    return out, extra


def worker(item):
    tier, fi, mask, wd, exe = item[:5]
    var = _vtuple(item[5]) if len(item) > 5 else None
    f, M, slots, inv = _family(tier, fi)
    S, rk = classify_mask(M, f.net, slots, mask)
    adm = (M.d > 0 and rk == M.d)
    out = {"fi": fi, "mask": mask, "var": var, "adm": adm, "rank": rk, "nS": len(S)}
    if not adm:
        return out
    out["strength"] = datum_strength(M, S)
    base, net = build_net(tier, fi, mask, var)
    gkf = gnet.to_gkf(net)
    name = "%s_%d_%x" % (tier[0], fi, mask) + ("" if var is None else "_" + "_".join(str(v) for v in var))
    out["expect"] = (M.d, M.m - M.n + M.d, M.n, M.m)
    if is_iter(var):
        res, extra = _run_iterated(name, gkf, wd, exe)
        out["res"] = {}
        for alg in ALGS:
            it = {"net": net, "approx": extra[alg]["approx"], "iters": extra[alg]["iters"], "gen": f.gen,
                  "m0": float(net.params["sigma-apr"]), "given": n08_iter.given_approx(gkf)}
            out["res"][alg] = reduce_result(res[alg], base, M, S, inv, it)
        return out
    key, res = n08_run.run_case((name, gkf, wd, exe, ARGS))
    # the dangling point must be removed: everything is reduced against the family network
    out["res"] = {alg: reduce_result(res[alg], base, M, S, inv) for alg in ALGS}
    if var is not None:
        pid = n08_dangle.PID[var[3]]
        out["exp_removed"] = [list(t) for t in n08_dangle.expected_removed(var)]
        for alg in ALGS:
            D = res[alg]
            if D["cls"] == "adj":
                out["res"][alg]["p_in_output"] = [k for k in ("adjusted", "fixed") if pid in D.get(k, {})]
    return out


def gkf_of(tier, fi, mask, var=None):
    base, net = build_net(tier, fi, mask, var)
    return gnet.to_gkf(net)


def case_name(slots, mask, var=None):
    if is_iter(var):
        return n08_gen.mask_name(slots, mask) + " " + n08_iter.label(var)
    return n08_gen.mask_name(slots, mask) + ("" if var is None else " + " + n08_dangle.label(var))


def admissible_masks(tier, fi):
    f, M, slots, inv = _family(tier, fi)
    if M.d == 0:
        return []
    return [m for m in range(1 << len(slots)) if classify_mask(M, f.net, slots, m)[1] == M.d]


def _spaced(lst, cap):
    """cap elements of lst, evenly spaced, first and last included"""
    if cap is None or len(lst) <= cap:
        return list(lst)
    if cap == 1:
        return [lst[0]]
    return [lst[(i * (len(lst) - 1)) // (cap - 1)] for i in range(cap)]


def dangle_plan(tier, fi):
    """the (constraint set, dangling variant) pairs of one family.

    Constraint sets: MINIMAL admissible sets (no constrained group can be
    dropped: every stale or surplus index in the regularisation list changes
    the datum), evenly spaced in mask order with the first and the last one
    included, and the full set (every group constrained: duplicates in the
    list).  Bounds per tier:
      thorough, complete networks (no observation dropped, no point fixed)
          with sign pattern 0: 8 minimal sets + full set, all statuses of P
          (xyz: xy and z separately), 3 id positions
      thorough, other networks (they differ from the former by the noise, one
          observation or one fixed point): 2 minimal sets + full set, P either
          entirely free or entirely constrained, id position 'between'
      quick: 3 minimal sets + full set, P entirely free / entirely
          constrained, 3 id positions
    always: every attachment of the family x 3 observation positions; each
    variant is proved to be dangling (n08_dangle.selfcheck)."""
    f, M, slots, inv = _family(tier, fi)
    adm = admissible_masks(tier, fi)
    if not adm:
        return []
    A = set(adm); k = len(slots)
    minimal = [m for m in adm if not any(((m >> i) & 1) and (m ^ (1 << i)) in A for i in range(k))]
    full = (1 << k) - 1
    complete = tier == "thorough" and ".dNone" in f.name and ".fix" not in f.name and ".p0." in f.name
    masks = _spaced(minimal, (8 if complete else 2) if tier == 'thorough' else 3)
    if full in A and full not in masks:
        masks.append(full)
    V = n08_dangle.variants(f.name, tier)
    if not complete:
        V = [v for v in V if not (v[1] and v[2] and v[1] != v[2])]
        if tier == "thorough":
            V = [v for v in V if v[3] == "between"]
    for v in V:
        n08_dangle.selfcheck(f.net, v)
    return [(m, v) for m in masks for v in V]


def iter_plan(tier, fi):
    """the (constraint set, iterated variant) pairs of one family: sz / sd
    networks without fixed point.  quick: offsets 0 on all admissible sets, at
    most 150 (evenly spaced in mask order); thorough: offsets 0 on ALL
    admissible sets, offsets 1 on 64 evenly spaced sets of the complete
    networks with sign pattern 0."""
    f, M, slots, inv = _family(tier, fi)
    if not n08_iter.applies(f):
        return []
    adm = admissible_masks(tier, fi)
    if not adm:
        return []
    if tier != "thorough":
        return [(m, ("iter", 0)) for m in _spaced(adm, 150)]
    out = [(m, ("iter", 0)) for m in adm]
    if ".dNone" in f.name and ".p0." in f.name:
        out += [(m, ("iter", 1)) for m in _spaced(adm, 64)]
    return out


def plan_worker(item):
    tier, fi = item
    return fi, dangle_plan(tier, fi) + iter_plan(tier, fi)


def famkind(name):
    import re
    return re.match(r"[a-z]+", name).group(0) + (".fix" if ".fix" in name else "")


def _spread(vals):
    """vals: list of (tag, number) -> (max-min, tag of min, tag of max)"""
    lo = min(vals, key=lambda t: t[1]); hi = max(vals, key=lambda t: t[1])
    return hi[1] - lo[1], lo[0], hi[0]


def _deviants(vals, tol):
    """tags whose value is farther than tol from the median"""
    s = sorted(v for _, v in vals)
    med = s[len(s) // 2]
    return [t for t, v in vals if abs(v - med) > tol]


def _same_solution(ra, rb):
    """largest difference of any coordinate of the family points; None = not comparable"""
    if ra.get("xyz") is None or rb.get("xyz") is None or len(ra["xyz"]) != len(rb["xyz"]):
        return None
    return max((abs(x - y) for x, y in zip(ra["xyz"], rb["xyz"])), default=0.0)


def evaluate(tier, fi, results, report, outcome):
    """results: list of worker outputs of one family (admissible ones carry
    'res'; outputs with 'var' are dangling-point variants of a constraint set).
    report(sig, detail, cases, algs) is called per violation, cases = list of
    (mask, var)."""
    f, M, slots, inv = _family(tier, fi)
    kind = famkind(f.name)
    runs = []      # ((mask, alg, var), record)
    byrun = {}     # (mask, alg, var) -> record of every run that gave an adjustment
    for w in results:
        if not w["adm"]:
            continue
        var = _vtuple(w.get("var"))
        cn = case_name(slots, w["mask"], var)
        cs = [(w["mask"], var)]
        exp_removed = [tuple(t) for t in w.get("exp_removed", [])]
        for alg in ALGS:
            r = w["res"][alg]
            tag = (w["mask"], alg, var)
            if r["nonfinite"]:
                report("C08|non-finite|%s|%s" % (kind, alg), "%s %s: %s" % (f.name, cn, r["nonfinite"][:2]), cs, [alg])
            if r["cls"] != "adj":
                outcome("%s|refused:%s" % (kind, "timeout" if r["rc"] == -999 else r["cls"]))
                report("C08|%s|%s|%s" % ("timeout" if r["rc"] == -999 else "admissible-set-refused", kind, alg),
                       "%s constraints %s (exact rank of N_S = defect %d): gama gives %s rc=%s %s removed=%s diag=%s" % (
                           f.name, cn, M.d, r["cls"], r["rc"], r.get("err"), r.get("removed"), r.get("diag")),
                       cs, [alg])
                continue
            got_removed = [tuple(t) for t in (r.get("removed") or [])]
            if var is None or is_iter(var):
                if got_removed:
                    report("C08|points-removed|%s|%s" % (kind, alg), "%s %s removed %s" % (f.name, cn, r["removed"]), cs, [alg])
                    continue
            else:
                if got_removed != exp_removed or r.get("p_in_output"):
                    report("C08|dangling-point-removal|%s|%s|%s" % (kind, var[0], alg),
                           "%s %s: removed points %s, expected %s (decided by singular_coords() on the design matrix, the same for every algorithm); dangling point printed in %s" % (
                               f.name, cn, got_removed, exp_removed, r.get("p_in_output") or "no section"), cs, [alg])
                    continue
                outcome("%s|dangling:%s:%s|removed:%s" % (kind, var[0], "constrained" if n08_dangle.is_constrained(var) else "free",
                                                          "+".join(t[1] for t in got_removed)))
            if r.get("missing"):
                report("C08|point-missing-in-output|%s|%s" % (kind, alg), "%s %s: %s" % (f.name, cn, r["missing"]), cs, [alg])
                continue
            if tuple(r["scal"]) != tuple(w["expect"]):
                report("C08|defect-dof-counts|%s|%s" % (kind, alg),
                       "%s %s: (defect,dof,unknowns,equations)=%s, exact reference %s" % (f.name, cn, r["scal"], w["expect"]),
                       cs, [alg])
            # constraint marks echoed
            want = {}
            for i, (pid, wh) in enumerate(slots):
                want[(pid, wh)] = bool((w["mask"] >> i) & 1)
            for (pid, cx, cz) in r["flags"]:
                if (pid, "xy") in want and want[(pid, "xy")] != cx or (pid, "z") in want and want[(pid, "z")] != cz:
                    report("C08|constraint-marks|%s|%s" % (kind, alg), "%s %s point %s printed XY=%s Z=%s" % (f.name, cn, pid, cx, cz), cs, [alg])
                    break
            if is_iter(var):
                outcome("%s|iterated|iterations=%s" % (kind, r.get("iters")))
                bad = []
                if r.get("approx_missing"): bad.append("a constrained coordinate is missing in <approximate>")
                if r.get("iters") is None or r["iters"] >= n08_iter.MAX_ITER: bad.append("%s iterations (limit %d)" % (r.get("iters"), n08_iter.MAX_ITER))
                if r.get("miscl") is None or r["miscl"] > n08_iter.TOL_CONV:
                    bad.append("adjusted observations computed from the adjusted coordinates differ from observed + residual by %s m as a position (bound %.0e = gama's own stopping rule 5e-7 + 20 %%)" % (
                        "%.3e" % r["miscl"] if r.get("miscl") is not None else "?", n08_iter.TOL_CONV))
                if r.get("laststep", 0.0) > n08_iter.TOL_STEP: bad.append("last replacement of the approximate coordinates %.3e m (bound %.0e)" % (r["laststep"], n08_iter.TOL_STEP))
                if bad:
                    report("C08|iterated-run-not-converged|%s|%s" % (kind, alg), "%s %s: %s" % (f.name, cn, "; ".join(bad)), cs, [alg])
                    # still compared with the others in residuals, adjusted observations and shape (fixed tolerances);
                    # the tolerances of the iterated group rest on convergence, so it stays out of that group
                    if r.get("miscl") is not None and not r.get("approx_missing"):
                        r["nonconv"] = True
                        runs.append((tag, r)); byrun[tag] = r
                    continue
            if is_iter(var) and r["orth0"] > TOL_ORTH:
                report("C08|not-minimal-over-constrained|%s|iterated-total|%s" % (kind, alg),
                       "%s %s: the total corrections (adjusted - given approximate value) of the constrained coordinates do not sum to zero along an axis: %.3e m (tolerance %.0e; every iteration regularises over the same set, translations are null vectors at every linearization point; |dx_S|=%.3e m)" % (
                           f.name, cn, r["orth0"], TOL_ORTH, r["dx0norm"]), cs, [alg])
            if r["orth"] > r.get("orth_tol", TOL_ORTH):
                report("C08|not-minimal-over-constrained|%s|%s" % (kind + ("|iterated" if is_iter(var) else ""), alg),
                       "%s %s: corrections of the constrained coordinates%s have a component %.3e m (tolerance %.1e) along a datum generator restricted to them (|dx_S|=%.3e m)" % (
                           f.name, cn, " in the last linearization (adjusted - last approximate value)" if is_iter(var) else "", r["orth"], r.get("orth_tol", TOL_ORTH), r["dxnorm"]), cs, [alg])
            if r["maxcorr"] > 0.004:
                report("C08|harness|correction-too-large|%s" % kind, "%s %s max correction %.4f m (generator must keep the linearisation error negligible)" % (f.name, cn, r["maxcorr"]), cs, [alg])
            runs.append((tag, r))
            byrun[tag] = r

    # dangling point: the same constraint set with / without the point, and with the point
    # constrained / free, are the same network with the same datum -> the same coordinates
    for (mask, alg, var), r in runs:
        if var is None or is_iter(var):
            continue
        partners = [("without the dangling point", (mask, alg, None), "dangling-point-changes-result")]
        if n08_dangle.is_constrained(var):
            partners.append(("with the dangling point declared free", (mask, alg, n08_dangle.free_twin(var)), "dangling-status-changes-result"))
        for what, ptag, clause in partners:
            rb = byrun.get(ptag)
            if rb is None:
                continue
            d = _same_solution(r, rb)
            if d is None or d > TOL_SAME or abs(r["pvv"] - rb["pvv"]) > TOL_PVV * abs(rb["pvv"]) + 1e-9:
                report("C08|%s|%s|%s|%s" % (clause, kind, var[0], alg),
                       "%s %s: adjusted coordinates differ by %s m (tolerance %.0e), [pvv] %.8g / %.8g from the run %s (%s); the point is removed in both, the datum is the same" % (
                           f.name, case_name(slots, mask, var), "%.3e" % d if d is not None else "?", TOL_SAME, r["pvv"], rb["pvv"], what, case_name(slots, ptag[0], ptag[2])),
                       [(mask, var), (ptag[0], ptag[2])], [alg])

    if len(runs) < 2:
        return len(runs)
    nbase = sum(1 for t, _ in runs if t[2] is None)
    outcome("%s|d=%d|adm-sets=%d|dof=%d|pvv=%s" % (kind, M.d, nbase // 4, runs[0][1]["scal"][1], "0" if runs[0][1]["pvv"] < 1e-6 else ">0"))
    # runs with the lattice linearization point (one linear problem, the datum picks among its
    # minimizers) / runs with linearization iterations (one non-linear problem, every run
    # converged to it within TOL_CONV)
    runs_lin = [(t, r) for t, r in runs if not is_iter(t[2])]
    runs_it = [(t, r) for t, r in runs if is_iter(t[2]) and not r.get("nonconv")]

    def cmp_vector(name, getter, tolf, clause, circ=None, group=None):
        runs = group
        if len(runs) < 2:
            return
        n = len(getter(runs[0][1]))
        for t, r in runs:
            if len(getter(r)) != n:
                report("C08|%s|%s|%s" % (clause, kind, t[1]), "%s: %s has %d entries in %s/%s, %d in %s/%s" % (
                    f.name, name, len(getter(r)), case_name(slots, t[0], t[2]), t[1], n, case_name(slots, runs[0][0][0], runs[0][0][2]), runs[0][0][1]),
                    [(runs[0][0][0], runs[0][0][2]), (t[0], t[2])], [runs[0][0][1], t[1]])
                return
        worst = None
        for i in range(n):
            vals = [(t, getter(r)[i]) for t, r in runs]
            if any(v is None for _, v in vals):
                continue
            if circ is not None and circ(i):
                # angles live on a circle: 399.9999999 and 0.0000001 gon are neighbours
                v0 = vals[0][1]
                vals = [(t, v0 + angdiff(v, v0)) for t, v in vals]
            tol = tolf(i, vals)
            sp, tlo, thi = _spread(vals)
            if sp > tol and (worst is None or sp / tol > worst[0]):
                worst = (sp / tol, i, sp, tol, tlo, thi, _deviants(vals, tol / 2))
        if worst:
            _, i, sp, tol, tlo, thi, dev = worst
            algs = sorted({t[1] for t in dev}) or sorted({tlo[1], thi[1]})
            report("C08|%s|%s|%s" % (clause, kind, "+".join(algs)),
                   "%s: %s[%d] differs by %.3e (tolerance %.1e) between constraints %s/%s and %s/%s; %d of %d runs deviate from the median" % (
                       f.name, name, i, sp, tol, case_name(slots, tlo[0], tlo[2]), tlo[1], case_name(slots, thi[0], thi[2]), thi[1], len(dev), len(runs)),
                   [(tlo[0], tlo[2]), (thi[0], thi[2])], [tlo[1], thi[1]])

    kinds = runs[0][1]["kinds"]
    # residuals, adjusted observations and the shape of the adjusted points: the same for ALL runs,
    # whether the solution was reached from the lattice (no iteration) or from poor approximate values.
    # A converged iterated run is within its measured misclosure e (<= gama's stopping rule) of the
    # non-linear solution; angles: e is a position, sights >= 100 m -> e / 100 m rad = e * 0.64 gon
    emax = max((r["miscl"] for _, r in runs_it), default=0.0)
    XL = n08_iter.K_MISCL * emax; XA = n08_iter.K_MISCL * emax * 0.64
    cmp_vector("residual", lambda r: r["res"], lambda i, v: TOL_ANG + XA if kinds[i] == "a" else TOL_LEN + XL, "residuals", group=runs)
    cmp_vector("adjusted observation", lambda r: r["adj"], lambda i, v: TOL_ANG + XA if kinds[i] == "a" else TOL_LEN + XL, "adjusted-observations", circ=lambda i: kinds[i] == "a", group=runs)
    cmp_vector("invariant", lambda r: r["inv"], lambda i, v: TOL_ANG if inv[i].kind == "angle" else TOL_LEN, "shape-of-adjusted-points", circ=lambda i: inv[i].kind == "angle", group=runs_lin)
    if any(is_iter(t[2]) for t, _ in runs):
        # the invariants were selected by their gradient at the lattice; the iterated runs start from a datum
        # that is tilted / shifted by metres, so only quantities invariant under the FINITE motions count:
        # all of them if the datum group is translations + rotation about z, slope distances if it contains tilts
        tilt = bool({"rx", "ry"} & set(f.gen or []))
        ridx = [i for i, o in enumerate(inv) if o.kind == "s-distance" or not tilt]
        cmp_vector("invariant", lambda r: [r["inv"][i] for i in ridx], lambda i, v: TOL_ANG + XA if inv[ridx[i]].kind == "angle" else TOL_LEN + XL,
                   "shape-of-adjusted-points", circ=lambda i: inv[ridx[i]].kind == "angle", group=runs)
    # quantities that depend on the linearization point / on sigma-apr: within each group
    cmp_vector("stdev of adjusted observation", lambda r: r["sd"], lambda i, v: TOL_SD + 1e-8 * abs(v[0][1]), "adjobs-stdev", group=runs_lin)
    for j, nm in enumerate(("qrr", "f", "std-residual")):
        cmp_vector(nm, lambda r, j=j: [q[j] for q in r["q3"]], lambda i, v: TOL_3DEC, "obs-statistics", group=runs_lin)
    cmp_vector("[pvv]", lambda r: [r["pvv"]], lambda i, v: TOL_PVV * abs(v[0][1]) + 1e-9, "pvv", group=runs_lin)
    if runs_it:
        # cofactors are taken at the last linearization point, which is within TOL_STEP of the solution
        smax = max(r["laststep"] for _, r in runs_it)
        cmp_vector("stdev of adjusted observation", lambda r: r["sd"], lambda i, v: TOL_SD + (1e-8 + n08_iter.K_SD * smax / 100.0) * abs(v[0][1]), "adjobs-stdev|iterated", group=runs_it)
        for j, nm in enumerate(("qrr", "f", "std-residual")):
            # cofactor-based like the standard deviations: same relative allowance on top of the printed decimals
            cmp_vector(nm, lambda r, j=j: [q[j] for q in r["q3"]], lambda i, v: TOL_3DEC + n08_iter.K_SD * smax / 100.0 * abs(v[0][1]), "obs-statistics|iterated", group=runs_it)
        # [pvv] of the linearized model vs the non-linear one: |r - e|^2 - |r|^2 <= 2 (|r| + E) E + E^2, E = weighted misclosure
        slack = max(2 * (math.sqrt(r["pvv"]) + r["E"]) * r["E"] + r["E"] ** 2 for _, r in runs_it)
        cmp_vector("[pvv]", lambda r: [r["pvv"]], lambda i, v: TOL_PVV * abs(v[0][1]) + 1e-9 + 2 * slack, "pvv|iterated", group=runs_it)
    return len(runs)


def invariant_names(tier, fi):
    f, M, slots, inv = _family(tier, fi)
    return ["%s(%s)" % (o.kind, ",".join(str(x) for x in (o.frm, o.to, o.bs, o.fs) if x)) for o in inv]


def eval_family(item):
    """pool worker: evaluate one complete family; returns plain data"""
    tier, fi, results = item
    f, M, slots, inv = _family(tier, fi)
    viol = []; outs = []

    def report(sig, detail, cases, algs):
        cs = sorted(set((m, _vtuple(v)) for m, v in cases), key=lambda t: (t[0], t[1] or ()))
        ms = sorted(set(m for m, v in cs))
        files = None
        if len(viol) < 6:
            files = {"mask_%x.gkf" % m: gkf_of(tier, fi, m) for m in ms}
            for m, v in cs:
                if v is not None:
                    files["mask_%x_%s.gkf" % (m, "_".join(str(t) for t in v))] = gkf_of(tier, fi, m, v)
        viol.append((sig, detail, {"tier": tier, "fi": fi, "family": f.name, "masks": ms, "algs": list(algs),
                                   "vars": [[m, list(v)] for m, v in cs if v is not None]}, files))

    nr = evaluate(tier, fi, results, report, outs.append)
    k = len(slots)
    adm = sorted(w["mask"] for w in results if w["adm"] and w.get("var") is None)
    admset = set(adm)
    edges = sum(1 for m in adm for i in range(k) if (m ^ (1 << i)) in admset and m < (m ^ (1 << i)))
    sample = None
    if adm:
        sample = "%s: defect %d, %d of %d constraint sets admissible, e.g. {%s}; invariants compared: %s" % (
            f.name, M.d, len(adm), 1 << k, mask_name(slots, adm[len(adm) // 2]), ", ".join(invariant_names(tier, fi)[:6]))
        nv = [w for w in results if w.get("var") is not None and not is_iter(w["var"])]
        if nv:
            w = nv[len(nv) // 2]
            sample += "; %d dangling-point variants, e.g. {%s}" % (len(nv), case_name(slots, w["mask"], w["var"]))
        ni = [w for w in results if is_iter(w.get("var"))]
        if ni:
            w = ni[len(ni) // 2]
            its = sorted({w2["res"][a].get("iters") for w2 in ni for a in ALGS if w2.get("res")}, key=str)
            sample += "; %d constraint sets also with poor approximate coordinates and iterations (%s iterations), e.g. {%s}" % (len(ni), "/".join(str(i) for i in its), case_name(slots, w["mask"], w["var"]))
    return {"fi": fi, "viol": viol, "outcomes": outs, "nruns": nr, "edges": edges, "sample": sample}


def mask_name(slots, mask):
    return n08_gen.mask_name(slots, mask)
