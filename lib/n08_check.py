"""n08_check: network-level part of C08 (datum choice changes only the datum).

worker(item)   one (family, constraint mask): classify exactly, run gama-local
               with the four algorithms, reduce each result to invariants.
evaluate(...)  compare all admissible sets x algorithms of one family.
"""
import math, os, sys
sys.path.insert(0, os.path.dirname(os.path.abspath(__file__)))
import gnet, n08_ref, n08_gen, n08_run
from gnet import Obs
from fractions import Fraction as Fr

ALGS = gnet.ALGS
ARGS = ["--iterations", "0"]

TOL_LEN = 1e-6        # m      (inter-point distances, height differences, adjusted lengths)
TOL_ANG = 1e-6        # gon    (1e-6 gon = 1.6e-8 rad = 3 um at 200 m)
TOL_SD = 1e-6         # mm / cc (standard deviations of adjusted observations), + 1e-8 relative
TOL_PVV = 3e-7        # relative ([pvv] is printed with 8 significant digits)
TOL_3DEC = 2.1e-3     # qrr, f, std-residual are printed with 3 decimals (two units of the last digit)
TOL_ORTH = 1e-8       # m, |n_S . dx_S| with n_S scaled to max-abs 1

_cache = {}


def _family(tier, fi):
    k = (tier, fi)
    if k not in _cache:
        F = n08_gen.families(tier)
        f = F[fi]
        M = n08_ref.Model(f.net)
        slots = n08_gen.constraint_slots(f.net)
        inv = invariants(f.net, M)
        _cache[k] = (f, M, slots, inv)
    return _cache[k]


def invariants(net, M):
    """pseudo-observations between the points whose exact gradient is
    orthogonal to the exact null space -> list of Obs (kind, ids)"""
    out = []
    pts = net.points
    ids2 = [p.id for p in pts if p.x is not None and p.xy]
    ids3 = [p.id for p in pts if p.x is not None and p.xy and p.zs]
    idsz = [p.id for p in pts if p.zs]
    cand = []
    import itertools
    for a, b in itertools.combinations(ids2, 2):
        cand.append(Obs("distance", a, b))
    for a, b in itertools.combinations(ids3, 2):
        cand.append(Obs("s-distance", a, b))
    for a, b in itertools.combinations(idsz, 2):
        cand.append(Obs("dh", a, b))
    for s in ids2:
        oth = [t for t in ids2 if t != s]
        for b, f in itertools.combinations(oth, 2):
            cand.append(Obs("angle", s, None, bs=b, fs=f))
    for o in cand:
        row = n08_ref.exact_row(net, None, o, None)
        if any(k not in M.index for k in row):
            continue
        ok = True
        for v in M.N:
            if sum(c * v[M.index[k]] for k, c in row.items()) != 0:
                ok = False; break
        if ok:
            out.append(o)
    return out


def classify_mask(M, net, slots, mask):
    """rank of the null space restricted to the constrained coordinates"""
    S = []
    for i, (pid, w) in enumerate(slots):
        if (mask >> i) & 1:
            for t in (("x", "y") if w == "xy" else ("z",)):
                if (t, pid) in M.index: S.append(M.index[(t, pid)])
    if M.d == 0:
        return S, 0
    NS = [[v[i] for i in S] for v in M.N]
    return S, (n08_ref.rank(NS, len(S)) if S else 0)


def _gram_schmidt(V):
    Q = []
    for v in V:
        w = list(v)
        for _ in range(2):
            for q in Q:
                c = sum(a * b for a, b in zip(w, q))
                w = [a - c * b for a, b in zip(w, q)]
        nrm = math.sqrt(sum(a * a for a in w))
        Q.append([a / nrm for a in w])
    return Q


def _min_eig_sym(G):
    """smallest eigenvalue of a small symmetric matrix (cyclic Jacobi)"""
    n = len(G)
    A = [row[:] for row in G]
    for _ in range(60):
        off = sum(A[i][j] ** 2 for i in range(n) for j in range(n) if i != j)
        if off < 1e-30: break
        for p in range(n):
            for q in range(p + 1, n):
                if abs(A[p][q]) < 1e-300: continue
                th = (A[q][q] - A[p][p]) / (2 * A[p][q])
                t = (1 if th >= 0 else -1) / (abs(th) + math.sqrt(th * th + 1))
                c = 1 / math.sqrt(t * t + 1); sn = t * c
                for k in range(n):
                    akp, akq = A[k][p], A[k][q]
                    A[k][p] = c * akp - sn * akq; A[k][q] = sn * akp + c * akq
                for k in range(n):
                    apk, aqk = A[p][k], A[q][k]
                    A[p][k] = c * apk - sn * aqk; A[q][k] = sn * apk + c * aqk
    return min(A[i][i] for i in range(n))


def datum_strength(M, S):
    """smallest singular value of Q_S, Q = orthonormal basis of the null space
    on the coordinate unknowns: 1/strength bounds how much the constraint set
    amplifies (null-space components of) the corrections.  A priori, from the
    geometry only."""
    if M.d == 0: return 1.0
    cj = [j for j, (t, _) in enumerate(M.cols) if t != "o"]
    V = [[float(v[j]) for j in cj] for v in M.N]
    Q = _gram_schmidt(V)
    pos = {j: i for i, j in enumerate(cj)}
    QS = [[q[pos[j]] for j in S] for q in Q]          # d x |S|
    G = [[sum(a * b for a, b in zip(QS[i], QS[k])) for k in range(M.d)] for i in range(M.d)]
    return math.sqrt(max(0.0, _min_eig_sym(G)))


def angdiff(a, b):
    d = math.fmod(a - b, 400.0)
    if d > 200: d -= 400
    if d < -200: d += 400
    return d


def reduce_result(D, net, M, S, inv):
    """digest of one run -> comparable record"""
    R = {"cls": D["cls"], "rc": D["rc"], "nonfinite": D["nonfinite"], "err": D.get("err"),
         "removed": D.get("removed"), "diag": D.get("diag")}
    if D["cls"] != "adj":
        return R
    R["scal"] = (D["defect"], D["dof"], D["n"], D["m"])
    R["pvv"] = D["pvv"]
    adjv = []; sdv = []; res = []; q3 = []
    kinds = []
    for (tag, frm, to, le, ri, ob, ad, sd, qrr, f, sr) in D["obs"]:
        ang = tag in ("direction", "angle", "zenith-angle", "azimuth")
        kinds.append("a" if ang else "l")
        adjv.append(ad); sdv.append(sd)
        res.append(angdiff(ad, ob) if ang else ad - ob)
        q3.append((qrr, f, sr))
    R["kinds"] = kinds; R["adj"] = adjv; R["sd"] = sdv; R["res"] = res; R["q3"] = q3
    # coordinates
    C = {}
    missing = []
    for p in net.points:
        a = D["adjusted"].get(p.id, {}); fx = D["fixed"].get(p.id, {})
        x = a.get("x", fx.get("x", p.x if p.xy == "fix" else None))
        y = a.get("y", fx.get("y", p.y if p.xy == "fix" else None))
        z = a.get("z", fx.get("z", p.z if p.zs == "fix" else None))
        if (p.xy and (x is None or y is None)) or (p.zs and z is None):
            missing.append(p.id)
        C[p.id] = (x, y, z)
    R["missing"] = missing
    if missing:
        return R
    iv = []
    for o in inv:
        iv.append(gnet.ref_value(o, C))
    R["inv"] = iv
    # marks printed by gama: constrained flags must be the ones asked for
    flags = []
    for p in net.points:
        a = D["adjusted"].get(p.id, {})
        flags.append((p.id, bool(a.get("con_x")), bool(a.get("con_z"))))
    R["flags"] = flags
    # corrections of the constrained coordinates against the exact null space
    P = {p.id: p for p in net.points}
    dx = []
    for j in S:
        t, pid = M.cols[j]
        p = P[pid]
        tru = {"x": p.x, "y": p.y, "z": p.z}[t]
        dx.append(C[pid]["xyz".index(t)] - tru)
    R["dxnorm"] = math.sqrt(sum(v * v for v in dx))
    orth = 0.0
    for v in M.N:
        ns = [float(v[j]) for j in S]
        mx = max((abs(a) for a in ns), default=0.0)
        if mx == 0: continue
        orth = max(orth, abs(sum(a * b for a, b in zip(ns, dx))) / mx)
    R["orth"] = orth
    # max correction of any coordinate (size of the linearisation regime)
    mc = 0.0
    for p in net.points:
        x, y, z = C[p.id]
        if p.xy in ("adj", "con"): mc = max(mc, abs(x - p.x), abs(y - p.y))
        if p.zs in ("adj", "con"): mc = max(mc, abs(z - p.z))
    R["maxcorr"] = mc
    return R


def worker(item):
    tier, fi, mask, wd, exe = item
    f, M, slots, inv = _family(tier, fi)
    S, rk = classify_mask(M, f.net, slots, mask)
    adm = (M.d > 0 and rk == M.d)
    out = {"fi": fi, "mask": mask, "adm": adm, "rank": rk, "nS": len(S)}
    if not adm:
        return out
    out["strength"] = datum_strength(M, S)
    net = n08_gen.apply_constraints(f.net, slots, mask)
    gnet.fill_values(net)
    gkf = gnet.to_gkf(net)
    key, res = n08_run.run_case(("%s_%d_%x" % (tier[0], fi, mask), gkf, wd, exe, ARGS))
    out["res"] = {alg: reduce_result(res[alg], net, M, S, inv) for alg in ALGS}
    out["expect"] = (M.d, M.m - M.n + M.d, M.n, M.m)
    return out


def gkf_of(tier, fi, mask):
    f, M, slots, inv = _family(tier, fi)
    net = n08_gen.apply_constraints(f.net, slots, mask)
    gnet.fill_values(net)
    return gnet.to_gkf(net)


def famkind(name):
    import re
    return re.match(r"[a-z]+", name).group(0) + (".fix" if ".fix" in name else "")


def _spread(vals):
    """vals: list of (tag, number) -> (max-min, tag of min, tag of max)"""
    lo = min(vals, key=lambda t: t[1]); hi = max(vals, key=lambda t: t[1])
    return hi[1] - lo[1], lo[0], hi[0]


def _deviants(vals, tol):
    """tags whose value is farther than tol from the median"""
    s = sorted(v for _, v in vals)
    med = s[len(s) // 2]
    return [t for t, v in vals if abs(v - med) > tol]


def evaluate(tier, fi, results, report, outcome):
    """results: list of worker outputs of one family (admissible ones carry
    'res').  report(sig, detail, masks, algs) is called per violation."""
    f, M, slots, inv = _family(tier, fi)
    kind = famkind(f.name)
    runs = []      # ((mask, alg), record)
    for w in results:
        if not w["adm"]:
            continue
        for alg in ALGS:
            r = w["res"][alg]
            tag = (w["mask"], alg)
            if r["nonfinite"]:
                report("C08|non-finite|%s|%s" % (kind, alg), "%s %s: %s" % (f.name, n08_gen.mask_name(slots, w["mask"]), r["nonfinite"][:2]), [w["mask"]], [alg])
            if r["cls"] != "adj":
                outcome("%s|refused:%s" % (kind, r["cls"]))
                report("C08|admissible-set-refused|%s|%s" % (kind, alg),
                       "%s constraints %s (exact rank of N_S = defect %d): gama gives %s rc=%s %s removed=%s diag=%s" % (
                           f.name, n08_gen.mask_name(slots, w["mask"]), M.d, r["cls"], r["rc"], r.get("err"), r.get("removed"), r.get("diag")),
                       [w["mask"]], [alg])
                continue
            if r.get("removed"):
                report("C08|points-removed|%s|%s" % (kind, alg), "%s %s removed %s" % (f.name, n08_gen.mask_name(slots, w["mask"]), r["removed"]), [w["mask"]], [alg])
                continue
            if r.get("missing"):
                report("C08|point-missing-in-output|%s|%s" % (kind, alg), "%s %s: %s" % (f.name, n08_gen.mask_name(slots, w["mask"]), r["missing"]), [w["mask"]], [alg])
                continue
            if tuple(r["scal"]) != tuple(w["expect"]):
                report("C08|defect-dof-counts|%s|%s" % (kind, alg),
                       "%s %s: (defect,dof,unknowns,equations)=%s, exact reference %s" % (f.name, n08_gen.mask_name(slots, w["mask"]), r["scal"], w["expect"]),
                       [w["mask"]], [alg])
            # constraint marks echoed
            want = {}
            for i, (pid, wh) in enumerate(slots):
                want[(pid, wh)] = bool((w["mask"] >> i) & 1)
            for (pid, cx, cz) in r["flags"]:
                if (pid, "xy") in want and want[(pid, "xy")] != cx or (pid, "z") in want and want[(pid, "z")] != cz:
                    report("C08|constraint-marks|%s|%s" % (kind, alg), "%s %s point %s printed XY=%s Z=%s" % (f.name, n08_gen.mask_name(slots, w["mask"]), pid, cx, cz), [w["mask"]], [alg])
                    break
            if r["orth"] > TOL_ORTH:
                report("C08|not-minimal-over-constrained|%s|%s" % (kind, alg),
                       "%s %s: corrections of the constrained coordinates have a component %.3e m along a datum generator restricted to them (|dx_S|=%.3e m)" % (
                           f.name, n08_gen.mask_name(slots, w["mask"]), r["orth"], r["dxnorm"]), [w["mask"]], [alg])
            if r["maxcorr"] > 0.004:
                report("C08|harness|correction-too-large|%s" % kind, "%s %s max correction %.4f m (generator must keep the linearisation error negligible)" % (f.name, n08_gen.mask_name(slots, w["mask"]), r["maxcorr"]), [w["mask"]], [alg])
            runs.append((tag, r))
    if len(runs) < 2:
        return len(runs)
    outcome("%s|d=%d|adm-sets=%d|dof=%d|pvv=%s" % (kind, M.d, len(runs) // 4, runs[0][1]["scal"][1], "0" if runs[0][1]["pvv"] < 1e-6 else ">0"))

    def cmp_vector(name, getter, tolf, clause, circ=None):
        n = len(getter(runs[0][1]))
        for t, r in runs:
            if len(getter(r)) != n:
                report("C08|%s|%s|%s" % (clause, kind, t[1]), "%s: %s has %d entries, others %d" % (f.name, name, len(getter(r)), n), [runs[0][0][0], t[0]], [runs[0][0][1], t[1]])
                return
        worst = None
        for i in range(n):
            vals = [(t, getter(r)[i]) for t, r in runs]
            if any(v is None for _, v in vals):
                continue
            if circ is not None and circ(i):
                # angles live on a circle: 399.9999999 and 0.0000001 gon are neighbours
                v0 = vals[0][1]
                vals = [(t, v0 + angdiff(v, v0)) for t, v in vals]
            tol = tolf(i, vals)
            sp, tlo, thi = _spread(vals)
            if sp > tol and (worst is None or sp / tol > worst[0]):
                worst = (sp / tol, i, sp, tol, tlo, thi, _deviants(vals, tol / 2))
        if worst:
            _, i, sp, tol, tlo, thi, dev = worst
            algs = sorted({t[1] for t in dev}) or sorted({tlo[1], thi[1]})
            report("C08|%s|%s|%s" % (clause, kind, "+".join(algs)),
                   "%s: %s[%d] differs by %.3e (tolerance %.1e) between constraints %s/%s and %s/%s; %d of %d runs deviate from the median" % (
                       f.name, name, i, sp, tol, n08_gen.mask_name(slots, tlo[0]), tlo[1], n08_gen.mask_name(slots, thi[0]), thi[1], len(dev), len(runs)),
                   [tlo[0], thi[0]], [tlo[1], thi[1]])

    kinds = runs[0][1]["kinds"]
    cmp_vector("residual", lambda r: r["res"], lambda i, v: TOL_ANG if kinds[i] == "a" else TOL_LEN, "residuals")
    cmp_vector("adjusted observation", lambda r: r["adj"], lambda i, v: TOL_ANG if kinds[i] == "a" else TOL_LEN, "adjusted-observations", circ=lambda i: kinds[i] == "a")
    cmp_vector("stdev of adjusted observation", lambda r: r["sd"], lambda i, v: TOL_SD + 1e-8 * abs(v[0][1]), "adjobs-stdev")
    for j, nm in enumerate(("qrr", "f", "std-residual")):
        cmp_vector(nm, lambda r, j=j: [q[j] for q in r["q3"]], lambda i, v: TOL_3DEC, "obs-statistics")
    cmp_vector("[pvv]", lambda r: [r["pvv"]], lambda i, v: TOL_PVV * abs(v[0][1]) + 1e-9, "pvv")
    cmp_vector("invariant", lambda r: r["inv"], lambda i, v: TOL_ANG if inv[i].kind == "angle" else TOL_LEN, "shape-of-adjusted-points", circ=lambda i: inv[i].kind == "angle")
    return len(runs)


def invariant_names(tier, fi):
    f, M, slots, inv = _family(tier, fi)
    return ["%s(%s)" % (o.kind, ",".join(str(x) for x in (o.frm, o.to, o.bs, o.fs) if x)) for o in inv]


def eval_family(item):
    """pool worker: evaluate one complete family; returns plain data"""
    tier, fi, results = item
    f, M, slots, inv = _family(tier, fi)
    viol = []; outs = []

    def report(sig, detail, masks, algs):
        ms = sorted(set(masks))
        files = {"mask_%x.gkf" % m: gkf_of(tier, fi, m) for m in ms} if len(viol) < 6 else None
        viol.append((sig, detail, {"tier": tier, "fi": fi, "family": f.name, "masks": ms, "algs": list(algs)}, files))

    nr = evaluate(tier, fi, results, report, outs.append)
    k = len(slots)
    adm = sorted(w["mask"] for w in results if w["adm"])
    admset = set(adm)
    edges = sum(1 for m in adm for i in range(k) if (m ^ (1 << i)) in admset and m < (m ^ (1 << i)))
    sample = None
    if adm:
        sample = "%s: defect %d, %d of %d constraint sets admissible, e.g. {%s}; invariants compared: %s" % (
            f.name, M.d, len(adm), 1 << k, mask_name(slots, adm[len(adm) // 2]), ", ".join(invariant_names(tier, fi)[:6]))
    return {"fi": fi, "viol": viol, "outcomes": outs, "nruns": nr, "edges": edges, "sample": sample}


def mask_name(slots, mask):
    return n08_gen.mask_name(slots, mask)
