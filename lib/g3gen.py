"""Generator of small geocentric networks for gama-g3 (engine g3mc, check C19)
and reader of its two outputs.  Python stdlib only."""
import math, re
from decimal import Decimal
import g3ref as R

# ----------------------------------------------------------------------- places
# (name, latitude deg, longitude deg): origin of a local cluster of points
PLACES = [
    ("equator0",   0.0,     0.0),
    ("midlat",    50.0,    15.0),
    ("pole89.9",  89.9,    30.0),
    ("south60",  -60.0,   -70.0),
    ("antimerid", 20.0,   180.0),
    ("near180",  -35.0,   179.999),
]
H0 = 300.0
# local offsets (north, east, up) [m] of the points from the origin of the place;
# no three points collinear, no sight steeper than 20 deg, sights 1.6 - 4.3 km,
# height differences 120 - 720 m (so that distances also determine heights)
OFFSETS = [
    (0.0, 0.0, 0.0),
    (1800.0, 900.0, 250.0),
    (-700.0, 2100.0, -120.0),
    (1100.0, -1900.0, 600.0),
]
# second layout ("ray"): short sights, and seen from A the targets B and C lie on one ray at
# different distances: C is set off the ray by 0.4 mm to the right (clockwise), so that
# - whatever the rounding of the file coordinates to 0.1 mm does - the horizontal angle at A
# from B to C is +2.1..2.6 cc and its explement (from C to B) is 400 gon - 2.1..2.6 cc; seen from
# C the points A and B lie in one direction again (angle from A to B: +2.5..3.1 cc) and the angle
# at B is 200 gon.  With sights of 53 - 111 m the displacement of the approximate coordinates
# (0.3 - 0.6 mm, mode pert) turns a direction by up to 13 cc: the angle computed from the
# approximate coordinates falls on the other side of 0 / 400 gon for most status combinations
# (counted: angles_observed_above_0_computed_below_400 and the reverse).  A few cc, not less,
# because gama takes the angle from an arc cosine (resolution 1e-16 / angle).  No sight steeper
# than 20 deg, height differences 6 - 18 m (distances still determine heights).
_RAY = (54.0 / 60.37383539, 27.0 / 60.37383539)          # unit vector (n, e) of the ray, 54^2 + 27^2 = 3645
RAY_OFFSETS = [
    (0.0, 0.0, 0.0),
    (54.0, 27.0, 12.0),
    (99.0 - 0.0004 * _RAY[1], 49.5 + 0.0004 * _RAY[0], -6.0),
    (-41.0, 72.0, 17.0),
]
LAYOUTS = [OFFSETS, RAY_OFFSETS]
IDS = ["A", "B", "C", "D"]
GEOID = {"A": 40.0, "B": 41.5, "C": 0.0, "D": 42.75}     # C: an undulation that is given and is exactly zero (given != non-zero)

STATUS = ("fixed", "free", "constr")
STAT_CODE = {"fixed": "x", "free": "f", "constr": "c"}
CODE_STAT = {v: k for k, v in STAT_CODE.items()}


def truth(place, npts, lay=0):
    """true geocentric coordinates, exactly the 4-decimal numbers written to
    the input file: {id: (Decimal x, y, z)}; lay selects the layout of the points"""
    _, lat, lon = PLACES[place]
    b, l = math.radians(lat), math.radians(lon)
    o = R.blh2xyz(b, l, H0)
    n, e, u = R.frame(b, l)
    out = {}
    for k in range(npts):
        dn, de, du = LAYOUTS[lay][k]
        p = R.add(o, R.add(R.mul(n, dn), R.add(R.mul(e, de), R.mul(u, du))))
        out[IDS[k]] = tuple(R.dec(c, 4) for c in p)
    return out


def fl(T):
    return {k: tuple(float(c) for c in v) for k, v in T.items()}


def frames_of(X):
    fr = {}
    for pid, p in X.items():
        b, l, _ = R.xyz2blh(*p)
        fr[pid] = R.frame(b, l)
    return fr


# ----------------------------------------------------------------------- observations
def candidates(npts):
    """candidate observation list per type (fixed order)"""
    ids = IDS[:npts]
    c = {}
    ring = [(ids[i], ids[(i + 1) % npts]) for i in range(npts)]
    pairs = [(ids[i], ids[j]) for i in range(npts) for j in range(i + 1, npts)]
    c["vector"] = [("vector", a, b) for a, b in ring]
    c["xyz"] = [("xyz", a) for a in ids]
    c["distance"] = [("distance", a, b) for a, b in pairs]
    c["height"] = [("height", a) for a in ids]
    c["hdiff"] = [("hdiff", a, b) for a, b in ring]
    c["zenith"] = [("zenith", a, b) for a, b in ring] + [("zenith", b, a) for a, b in ring]
    c["azimuth"] = [("azimuth", a, b) for a, b in ring]
    ang = []
    for i in range(npts):
        s, l, r = ids[i], ids[(i + 1) % npts], ids[(i + 2) % npts]
        ang.append(("angle", s, l, r))
    ang.append(("angle", ids[0], ids[2 % npts], ids[1]))   # the explement of the first one
    c["angle"] = ang
    return c


# fixed, positive definite covariance menus (variances mm^2 / cc^2)
COV3 = [  # full 3x3 (band 2), upper triangle by rows
    (4.0, 1.2, -0.8, 3.0, 0.9, 5.0),
    (2.5, -0.7, 0.4, 3.5, 1.1, 2.0),
    (6.0, 2.0, 1.0, 4.5, -1.5, 3.2),
    (3.3, 0.5, 0.6, 2.2, 0.3, 4.1),
]
VAR1 = [4.0, 2.25, 9.0, 6.25, 1.44, 3.24]


def dh_xml(o):
    """optional <from-dh> / <to-dh> elements of an observation that carries heights (R.Ob)"""
    dhs = getattr(o, "dhs", (None, None))
    ends = R.DH_ENDS.get(o[0], "")
    s = ""
    if dhs[0] is not None and "f" in ends:
        s += "<from-dh>%s</from-dh> " % dhs[0]
    if dhs[1] is not None and "t" in ends:
        s += "<to-dh>%s</to-dh> " % dhs[1]
    return s


def obs_xml(o, val, k, degrees=False, variance=False):
    """one <obs> cluster with one observation; k selects the covariance.  The optional
    elements may come in any order after the value: the heights are written before the
    <stdev>/<variance> for even k and after it for odd k"""
    t = o[0]
    dh = dh_xml(o)
    if t == "vector":
        c = COV3[k % len(COV3)]
        return ("<obs>\n<vector> <from>%s</from> <to>%s</to> <dx>%s</dx> <dy>%s</dy> <dz>%s</dz> %s</vector>\n"
                "<cov-mat> <dim>3</dim> <band>2</band> %s </cov-mat>\n</obs>\n"
                % (o[1], o[2], val[0], val[1], val[2], dh, " ".join("<flt>%s</flt>" % R.fmt(v) for v in c)))
    if t == "xyz":
        c = COV3[(k + 1) % len(COV3)]
        return ("<obs>\n<xyz> <id>%s</id> <x>%s</x> <y>%s</y> <z>%s</z> </xyz>\n"
                "<cov-mat> <dim>3</dim> <band>2</band> %s </cov-mat>\n</obs>\n"
                % (o[1], val[0], val[1], val[2], " ".join("<flt>%s</flt>" % R.fmt(v) for v in c)))
    v1 = VAR1[k % len(VAR1)]
    sd = ("<variance>%s</variance>" % R.fmt(v1)) if variance else ("<stdev>%s</stdev>" % R.fmt(math.sqrt(v1)))
    opt = (dh + sd) if k % 2 == 0 else (sd + " " + dh).rstrip()
    if t == "distance":
        return "<obs>\n<distance> <from>%s</from> <to>%s</to> <val>%s</val> %s </distance>\n</obs>\n" % (o[1], o[2], val[0], opt)
    if t == "height":
        return "<obs>\n<height> <id>%s</id> <val>%s</val> %s </height>\n</obs>\n" % (o[1], val[0], sd)
    if t == "hdiff":
        return "<obs>\n<hdiff> <from>%s</from> <to>%s</to> <val>%s</val> %s </hdiff>\n</obs>\n" % (o[1], o[2], val[0], sd)
    if t in ("zenith", "azimuth"):
        return "<obs>\n<%s> <from>%s</from> <to>%s</to> <val>%s</val> %s </%s>\n</obs>\n" % (t, o[1], o[2], val[0], opt, t)
    if t == "angle":
        return "<obs>\n<angle> <from>%s</from> <left>%s</left> <right>%s</right> <val>%s</val> %s </angle>\n</obs>\n" % (o[1], o[2], o[3], val[0], opt)
    raise ValueError(t)


def obs_strings(o, X, T=None):
    """observed value(s) as decimal strings: linear types in metres (exact
    Decimal differences of the file coordinates where the type is linear in
    them), angular types in gons with 14 decimals (1.6e-16 rad)"""
    t = o[0]
    if t == "vector" and T is not None and not any(getattr(o, "dh", (0.0, 0.0))):
        return tuple(str(T[o[2]][i] - T[o[1]][i]) for i in range(3))
    if t == "xyz" and T is not None:
        return tuple(str(c) for c in T[o[1]])
    v = R.obs_value(o, X, GEOID)
    if t in R.ANGULAR:
        return tuple("%.14f" % (a / R.GON) for a in v)
    return tuple("%.10f" % a for a in v)


HEAD = ('<?xml version="1.0" ?>\n'
        '<gnu-gama-data xmlns="http://www.gnu.org/software/gama/gnu-gama-data">\n'
        '<g3-model>\n<constants> <apriori-standard-deviation>1</apriori-standard-deviation>'
        ' <angular-units-gons/> <ellipsoid> <id>wgs84</id> </ellipsoid> </constants>\n')
TAIL = '</g3-model>\n</gnu-gama-data>\n'


def status_xml(pos, hgt):
    if pos == hgt:
        return "<%s> <n/> <e/> <u/> </%s>" % (pos, pos)
    return "<%s> <n/> <e/> </%s> <%s> <u/> </%s>" % (pos, pos, hgt, hgt)


def point_xml(pid, xyz, pos, hgt, geoid=True):
    s = "<point> <id>%s</id> " % pid
    if xyz is not None:
        s += "<x>%s</x> <y>%s</y> <z>%s</z> " % tuple(xyz)
    if geoid:
        s += "<geoid>%s</geoid> " % R.fmt(GEOID[pid])
    s += status_xml(pos, hgt) + " </point>\n"
    return s


def make_xml(point_order, approx, status, obs_records):
    """point_order: ids; approx: {id: (sx, sy, sz) strings or None};
    status: {id: (pos, hgt)}; obs_records: list of xml strings"""
    s = HEAD
    for pid in point_order:
        s += point_xml(pid, approx.get(pid), status[pid][0], status[pid][1])
    s += "".join(obs_records)
    return s + TAIL


# ----------------------------------------------------------------------- reading the results
_num = r"([-+0-9.eEna]+)"


def parse_results(text):
    """g3-adjustment-results -> dict (None if not an adjustment document)"""
    if "<g3-adjustment-results>" not in text or "</g3-adjustment-results>" not in text:
        return None
    res = {"points": {}, "order": []}
    for key in ("parameters", "equations", "defect", "redundancy"):
        m = re.search(r"<%s>\s*(-?\d+)\s*</%s>" % (key, key), text)
        res[key] = int(m.group(1)) if m else None
    m = re.search(r"<sum-of-squares>\s*%s\s*</sum-of-squares>" % _num, text)
    res["rtr"] = float(m.group(1)) if m else None
    m = re.search(r"<algorithm>\s*(\w+)\s*</algorithm>", text)
    res["algorithm"] = m.group(1) if m else None
    m = re.search(r"<design-matrix-graph>\s*(\w+)\s*</design-matrix-graph>", text)
    res["graph"] = m.group(1) if m else None
    res["rejected"] = text.count("<rejected>")
    # the rejected observations: (tag, ids) in the order of the document
    res["rejected_list"] = []
    for blk in re.findall(r"<rejected>(.*?)</rejected>", text, re.S):
        m = re.search(r"<(vector|distance|height-diff|height|xyz|angle|azimuth|zenith-angle)>(.*?)</\1>", blk, re.S)
        if m:
            res["rejected_list"].append((m.group(1), tuple(re.findall(r"<(?:from|to|id|left|right)>\s*(\S+?)\s*</(?:from|to|id|left|right)>", m.group(2)))))
        else:
            res["rejected_list"].append(("?", ()))
    for blk in re.findall(r"<point>(.*?)</point>", text, re.S):
        m = re.search(r"<id>\s*(\S+)\s*</id>", blk)
        if not m:
            continue
        p = {"id": m.group(1)}
        for c in "neu":
            mm = re.search(r"<%s-(fixed|constr|free|unused)/>" % c, blk)
            if c == "u" and not mm and "<unused/>" in blk:
                p["st_" + c] = "unused"
            else:
                p["st_" + c] = mm.group(1) if mm else None
            mm = re.search(r"<d%s>\s*%s\s*</d%s>\s*<ind>(\d+)</ind>" % (c, _num, c), blk)
            if mm:
                p["d" + c] = float(mm.group(1))
                p["i" + c] = int(mm.group(2))
        for c in "xyz":
            for w in ("given", "correction", "adjusted"):
                mm = re.search(r"<%s-%s\s*>\s*%s\s*</%s-%s>" % (c, w, _num, c, w), blk)
                if mm:
                    p[c + "_" + w] = mm.group(1)
        for w in ("cnn", "cne", "cnu", "cee", "ceu", "cuu"):
            mm = re.search(r"<%s>\s*%s\s*</%s>" % (w, _num, w), blk)
            if mm:
                p[w] = float(mm.group(1))
        mm = re.search(r"<h-adjusted\s*>\s*%s\s*</h-adjusted>" % _num, blk)
        if mm:
            p["h_adjusted"] = float(mm.group(1))
        res["points"][p["id"]] = p
        res["order"].append(p["id"])
    # adjusted observations: residuals by (type, ids)
    obs = []
    sec = text.split("<adjusted-observations>")[-1]
    for m in re.finditer(r"<(vector|distance|height-diff|height|xyz|angle|azimuth|zenith-angle)>(.*?)</\1>", sec, re.S):
        t, blk = m.group(1), m.group(2)
        ids = re.findall(r"<(?:from|to|id)>\s*(\S+?)\s*</(?:from|to|id)>", blk)
        rs = [float(v) for v in re.findall(r"<(?:d?[xyz]-)?residual>\s*%s\s*</" % _num, blk)]
        ind = re.search(r"<ind>(\d+)</ind>", blk)
        obs.append((t, tuple(ids), tuple(rs), int(ind.group(1)) if ind else None))
    res["obs"] = obs
    nf = re.search(r"\b(nan|inf)\b", text, re.I)
    res["nonfinite"] = bool(nf)
    return res


def parse_projeq(text):
    """adj-input-data dump -> dict(rows, cols, A rows [(col, val)...], blocks, rhs, minx)"""
    m = re.search(r"<sparse-mat>\s*<rows>(\d+)</rows>\s*<cols>(\d+)</cols>\s*<nonz>(\d+)</nonz>", text)
    if not m:
        return None
    out = {"rows": int(m.group(1)), "cols": int(m.group(2)), "nonz": int(m.group(3)), "A": []}
    for blk in re.findall(r"<row>(.*?)</row>", text, re.S):
        out["A"].append([(int(i), float(v)) for i, v in re.findall(r"<int>(\d+)</int><flt>([^<]+)</flt>", blk)])
    out["blocks"] = []
    bd = re.search(r"<block-diagonal>(.*?)</block-diagonal>", text, re.S)
    if bd:
        for blk in re.findall(r"<block>(.*?)</block>", bd.group(1), re.S):
            d = int(re.search(r"<dim>(\d+)</dim>", blk).group(1))
            w = int(re.search(r"<width>(\d+)</width>", blk).group(1))
            out["blocks"].append((d, w, [float(v) for v in re.findall(r"<flt>([^<]+)</flt>", blk)]))
    vec = re.search(r"<vector>\s*<dim>(\d+)</dim>(.*?)</vector>", text, re.S)
    out["rhs"] = [float(v) for v in re.findall(r"<flt>([^<]+)</flt>", vec.group(2))] if vec else []
    arr = re.search(r"<array>\s*<dim>(\d+)</dim>(.*?)</array>", text, re.S)
    out["minx"] = [int(v) for v in re.findall(r"<int>(\d+)</int>", arr.group(2))] if arr else []
    return out
