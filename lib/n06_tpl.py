"""n06_tpl: templates of check C06 and their placements on the lattice.

A template names its points (role fix/new), lists its candidate observations
and gives an exact integer predicate that removes degenerate placements
(coincident / collinear).  Placements are ALL injective maps of the roles to
the lattice {0,100,200}^2 that pass the predicate, in lexicographic order;
a tier takes `n` of them, evenly spaced over that list (deterministic).
Heights (3-D / 1-D) are taken from {0,10,30} by role and placement index.
"""
import itertools, os
from n06_net import Unit, collinear

LAT = [(x, y) for x in (0, 100, 200) for y in (0, 100, 200)]
ZL = (0, 10, 30)

IH = (1.5, 1.8)       # instrument / target height used by the "ih" templates
# pairs whose difference exceeds tol-abs/2 = 0.5 m in both signs: an approximate
# height that applies the difference with the wrong sign (or not at all) is
# off by more than tol-abs and makes gama-local reject consistent observations
IH_NEG = (1.6, 0.2)
IH_POS = (0.2, 1.7)


def _noncol(*tri):
    return lambda I: all(not collinear(I[a], I[b], I[c]) for (a, b, c) in tri)


def polar3d(name, dhA, dhB, zrule="steep"):
    return dict(name=name, dim=3, roles=[("A", "fix"), ("B", "fix"), ("P", "new")],
                cands=[("dir", "A", "B"), ("dir", "A", "P"), ("sd", "A", "P") + dhA, ("za", "A", "P") + dhA,
                       ("dir", "B", "A"), ("dir", "B", "P"), ("sd", "B", "P") + dhB, ("za", "B", "P") + dhB,
                       ("dist", "A", "P"), ("dh", "A", "P")],
                pred=_noncol(("A", "B", "P")), zrule=zrule)


def free3d(name, ih, zrule="steep"):
    """the NEW point is the station: directions, slope distances and zenith
    angles from P to fixed targets, plus the reverse sight from C"""
    return dict(name=name, dim=3, roles=[("A", "fix"), ("B", "fix"), ("C", "fix"), ("P", "new")],
                cands=[("dir", "P", "A"), ("dir", "P", "B"), ("dir", "P", "C"), ("sd", "P", "A") + ih, ("za", "P", "A") + ih,
                       ("sd", "P", "B") + ih, ("za", "P", "B") + ih, ("sd", "C", "P") + ih, ("za", "C", "P") + ih],
                pred=_noncol(("A", "B", "P"), ("A", "C", "P"), ("B", "C", "P"), ("A", "B", "C")), zrule=zrule)


TEMPLATES = [
    dict(name="polar", dim=2, roles=[("A", "fix"), ("B", "fix"), ("P", "new")],
         cands=[("dir", "A", "B"), ("dir", "A", "P"), ("dist", "A", "P"), ("dir", "B", "A"), ("dir", "B", "P"),
                ("dist", "B", "P"), ("dist", "P", "A"), ("ang", "A", "B", "P")],
         pred=_noncol(("A", "B", "P"))),
    dict(name="intersection", dim=2, roles=[("A", "fix"), ("B", "fix"), ("C", "fix"), ("P", "new")],
         cands=[("dir", "A", "B"), ("dir", "A", "P"), ("dir", "B", "A"), ("dir", "B", "P"), ("dir", "C", "B"),
                ("dir", "C", "P"), ("ang", "C", "A", "P"), ("azi", "A", "P")],
         pred=_noncol(("A", "B", "P"), ("A", "C", "P"), ("B", "C", "P"), ("A", "B", "C"))),
    dict(name="resection", dim=2, roles=[("A", "fix"), ("B", "fix"), ("C", "fix"), ("P", "new")],
         cands=[("dir", "P", "A"), ("dir", "P", "B"), ("dir", "P", "C"), ("ang", "P", "A", "B"), ("ang", "P", "B", "C"),
                ("dist", "P", "A"), ("dist", "P", "B"), ("dist", "C", "P")],
         pred=_noncol(("A", "B", "P"), ("A", "C", "P"), ("B", "C", "P"), ("A", "B", "C"))),
    dict(name="traverse", dim=2, roles=[("A", "fix"), ("B", "fix"), ("C", "fix"), ("P", "new"), ("Q", "new")],
         cands=[("dir", "A", "B"), ("dir", "A", "P"), ("dist", "A", "P"), ("dir", "P", "A"), ("dir", "P", "Q"),
                ("dist", "P", "Q"), ("dir", "Q", "P"), ("dir", "Q", "C"), ("dist", "Q", "C"), ("dir", "C", "Q"),
                ("dir", "C", "B")],
         pred=_noncol(("A", "B", "P"), ("A", "P", "Q"), ("P", "Q", "C"), ("Q", "C", "B"))),
    dict(name="polar2", dim=2, roles=[("A", "fix"), ("B", "fix"), ("P", "new"), ("Q", "new")],
         cands=[("dir", "A", "B"), ("dir", "A", "P"), ("dist", "A", "P"), ("dir", "A", "Q"), ("dist", "A", "Q"),
                ("dir", "P", "A"), ("dir", "P", "Q"), ("dist", "P", "Q"), ("dist", "B", "Q"), ("dir", "B", "A"),
                ("dir", "B", "Q")],
         pred=_noncol(("A", "B", "P"), ("A", "B", "Q"), ("A", "P", "Q"), ("B", "P", "Q"))),
    dict(name="coords", dim=2, roles=[("A", "fix"), ("B", "fix"), ("P", "new"), ("Q", "new")],
         cands=[("xyz", "P", "xy"), ("xyz", "Q", "xy"), ("dist", "A", "P"), ("dist", "P", "Q"), ("dist", "B", "Q"),
                ("dir", "A", "B"), ("dir", "A", "P"), ("dir", "A", "Q")],
         pred=_noncol(("A", "B", "P"), ("A", "B", "Q"), ("A", "P", "Q"), ("B", "P", "Q"))),
    dict(name="levelling", dim=1, roles=[("A", "fix"), ("B", "fix"), ("P", "new"), ("Q", "new")],
         cands=[("dh", "A", "P"), ("dh", "P", "Q"), ("dh", "Q", "B"), ("dh", "A", "Q"), ("dh", "B", "P"), ("dh", "Q", "P")],
         pred=lambda I: True),
    dict(name="levelling3", dim=1, roles=[("A", "fix"), ("B", "fix"), ("P", "new"), ("Q", "new"), ("R", "new")],
         cands=[("dh", "A", "P"), ("dh", "P", "Q"), ("dh", "Q", "R"), ("dh", "R", "B"), ("dh", "A", "Q"), ("dh", "P", "R"),
                ("dh", "B", "Q"), ("dh", "R", "P")],
         pred=lambda I: True),
    dict(name="vectors", dim=3, roles=[("A", "fix"), ("B", "fix"), ("P", "new"), ("Q", "new")],
         cands=[("vec", "A", "P"), ("vec", "P", "Q"), ("vec", "B", "Q"), ("vec", "Q", "A"), ("vec", "B", "P"),
                ("xyz", "P", "xyz"), ("dh", "A", "P"), ("dh", "P", "Q")],
         pred=lambda I: True),
    dict(name="vectors1", dim=3, roles=[("A", "fix"), ("B", "fix"), ("P", "new")],
         cands=[("vec", "A", "P"), ("vec", "P", "B"), ("vec", "B", "P"), ("xyz", "P", "xyz"), ("dh", "A", "P"),
                ("sd", "A", "P", None, None)],
         pred=lambda I: True),
    dict(name="vecmix", dim=3, roles=[("A", "fix"), ("B", "fix"), ("P", "new"), ("Q", "new")],
         cands=[("dir", "A", "B"), ("dir", "A", "P"), ("sd", "A", "P", None, None), ("za", "A", "P", None, None),
                ("vec", "P", "Q"), ("vec", "B", "Q"), ("dh", "A", "P"), ("dh", "P", "Q")],
         pred=_noncol(("A", "B", "P")), zrule="steep"),
    polar3d("polar3d", (None, None), (None, None)),
    polar3d("polar3d-ih", IH, IH),
    polar3d("polar3d-ihmix", (1.5, None), (None, 1.3)),
    polar3d("polar3d-ihneg", IH_NEG, IH_NEG),
    polar3d("polar3d-ihpos", IH_POS, IH_POS),
    free3d("free3d", (None, None)),
    free3d("free3d-ihneg", IH_NEG),
    free3d("free3d-ihpos", IH_POS),
    # position of an azimuth inside a station cluster (first / last / absent) with slope observations:
    # gama-local scans the clusters for azimuths and slope observations to select its approximate-coordinate algorithms
    dict(name="azi3d", dim=3, roles=[("A", "fix"), ("B", "fix"), ("P", "new")],
         cands=[("azi", "A", "P", "first"), ("sd", "A", "P", None, None), ("za", "A", "P", None, None), ("azi", "A", "P", "last"),
                ("azi", "B", "P", "first"), ("sd", "B", "P", None, None), ("za", "B", "P", None, None), ("dir", "A", "B"),
                ("dir", "A", "P")],
         pred=_noncol(("A", "B", "P")), zrule="steep"),
    # azimuth + distance polar method in both directions (the bearing rules of the approximate coordinates
    # depend on the coordinate frame and, through the id-sorted azimuth pairs, on the id order of the points)
    dict(name="aziframe", dim=2, roles=[("A", "fix"), ("B", "fix"), ("P", "new")],
         cands=[("azi", "A", "P"), ("dist", "A", "P"), ("azi", "P", "B"), ("dist", "B", "P"), ("azi", "B", "P"),
                ("dir", "A", "B"), ("dir", "A", "P")],
         pred=_noncol(("A", "B", "P"))),
    # a station that sees 4 / 5 known points and carries a polar point: the circle zero additionally runs
    # through the split modes (orientation shift exactly 200 / 0 gon, readings +-1e-9 gon, n06_net.split_modes)
    dict(name="orient", dim=2, roles=[("A", "fix"), ("B", "fix"), ("C", "fix"), ("D", "fix"), ("E", "fix"), ("F", "fix"), ("P", "new")],
         cands=[("dir", "A", "B"), ("dir", "A", "C"), ("dir", "A", "D"), ("dir", "A", "E"), ("dir", "A", "F"), ("dir", "A", "P"),
                ("dist", "A", "P"), ("dist", "B", "P")],
         pred=lambda I: True, zsplit=True,
         fixed=dict(A=(100, 100), B=(0, 0), C=(200, 0), D=(200, 200), E=(0, 200), F=(100, 0), P=(0, 100))),
    # chains of mechanisms: a levelling line Q-R-S that reaches a known height only through Q, whose
    # height is trigonometric (zenith angles from A, B; xy of Q, R, S fixed) ...
    dict(name="levtrig", dim=3, roles=[("A", "fix"), ("B", "fix"), ("Q", "newz"), ("R", "newz"), ("S", "newz")],
         cands=[("za", "A", "Q", None, None), ("sd", "A", "Q", None, None), ("za", "B", "Q", None, None), ("dh", "Q", "R"),
                ("dh", "R", "S"), ("dh", "S", "Q"), ("dh", "A", "S"), ("za", "S", "B", None, None)],
         pred=_noncol(("A", "B", "Q")), zrule="chain"),
    # ... or through a vector / a polar sight (Q fully unknown)
    dict(name="levvec", dim=3, roles=[("A", "fix"), ("B", "fix"), ("Q", "new"), ("R", "newz"), ("S", "newz")],
         cands=[("vec", "A", "Q"), ("dh", "Q", "R"), ("dh", "R", "S"), ("dh", "B", "S"), ("dir", "A", "B"), ("dir", "A", "Q"),
                ("sd", "A", "Q", None, None), ("za", "A", "Q", None, None)],
         pred=_noncol(("A", "B", "Q")), zrule="chain"),
    # tower geometry: the new point 320-330 m above the fixed ones, every sight has
    # dz/d >= 1.1 and most >= 1.5 (zenith angle <= 37 gon resp. >= 163 gon downwards):
    # the dh reduction of a slope distance (to_dh - from_dh) * cos z exceeds tol-abs
    polar3d("tower3d", (None, None), (None, None), zrule="tower"),
    polar3d("tower3d-ihneg", IH_NEG, IH_NEG, zrule="tower"),
    polar3d("tower3d-ihpos", IH_POS, IH_POS, zrule="tower"),
    free3d("towerst-ihneg", IH_NEG, zrule="tower"),
    free3d("towerst-ihpos", IH_POS, zrule="tower"),
    dict(name="trig3d", dim=3, roles=[("A", "fix"), ("B", "fix"), ("C", "fix"), ("P", "new")],
         cands=[("dir", "A", "B"), ("dir", "A", "P"), ("dir", "B", "A"), ("dir", "B", "P"), ("za", "A", "P", None, None),
                ("za", "B", "P", None, None), ("za", "C", "P", None, None), ("sd", "C", "P", None, None),
                ("dist", "C", "P")],
         pred=_noncol(("A", "B", "P"), ("A", "C", "P"), ("B", "C", "P")), zrule="steep"),
    dict(name="trig3d-ih", dim=3, roles=[("A", "fix"), ("B", "fix"), ("C", "fix"), ("P", "new")],
         cands=[("dir", "A", "B"), ("dir", "A", "P"), ("dir", "B", "A"), ("dir", "B", "P"), ("za", "A", "P") + IH,
                ("za", "B", "P") + IH, ("za", "C", "P") + IH, ("sd", "C", "P") + IH,
                ("dist", "C", "P")],
         pred=_noncol(("A", "B", "P"), ("A", "C", "P"), ("B", "C", "P")), zrule="steep"),
    dict(name="chain3d", dim=3, roles=[("A", "fix"), ("B", "fix"), ("P", "new"), ("Q", "new")],
         cands=[("dir", "A", "B"), ("dir", "A", "P"), ("sd", "A", "P", None, None), ("za", "A", "P", None, None),
                ("dir", "P", "A"), ("dir", "P", "Q"), ("sd", "P", "Q", None, None), ("za", "P", "Q", None, None),
                ("sd", "B", "Q", None, None), ("za", "B", "Q", None, None), ("dh", "B", "Q")],
         pred=_noncol(("A", "B", "P"), ("A", "P", "Q"), ("B", "P", "Q")), zrule="steep"),
    dict(name="traverse3", dim=2, roles=[("A", "fix"), ("B", "fix"), ("P", "new"), ("Q", "new"), ("R", "new")],
         cands=[("dir", "A", "B"), ("dir", "A", "P"), ("dist", "A", "P"), ("dir", "P", "A"), ("dir", "P", "Q"),
                ("dist", "P", "Q"), ("dir", "Q", "P"), ("dir", "Q", "R"), ("dist", "Q", "R"), ("dir", "R", "Q"),
                ("dir", "R", "B"), ("dist", "R", "B")],
         pred=_noncol(("A", "B", "P"), ("A", "P", "Q"), ("P", "Q", "R"), ("Q", "R", "B"))),
]
TPL = {t["name"]: t for t in TEMPLATES}

# (template, number of placements) per tier
from n06_net import FRAMES
# complete product axes-xy x angles = 16 frames; quick sub-product: every axes-xy value once, the
# sense alternating so that 4 frames are consistent (axes and angles of equal handedness) and 4 are not
ALLF = list(FRAMES)
HALF = [(a, ("left-handed", "right-handed")[(i + i // 4) % 2]) for i, a in enumerate(["ne", "sw", "es", "wn", "en", "nw", "se", "ws"])]
IDS = [False, True]

TIERS = {
    "quick": [("polar", 1), ("intersection", 1), ("resection", 1, 7), ("levelling", 1), ("vectors1", 1, 5),
              ("polar3d", 1, 8), ("polar3d-ih", 1, 8), ("polar3d-ihneg", 1, 8),
              ("free3d-ihneg", 1, 7),
              ("tower3d-ihneg", 1, 8), ("tower3d-ihpos", 1, 8), ("towerst-ihneg", 1, 7), ("towerst-ihpos", 1, 7), ("traverse", 1), ("trig3d", 1, 8), ("vecmix", 1, 6),
              ("azi3d", 1, 7), ("levtrig", 1, 7), ("levvec", 1, 6), ("orient", 1),
              ("aziframe", 1, 5, {"frames": HALF, "idrev": IDS}),
              ("polar", 1, None, {"frames": [("sw", "left-handed"), ("en", "right-handed"), ("nw", "left-handed")]})],
    "thorough": [("polar", 4), ("intersection", 3), ("resection", 3), ("traverse", 2), ("polar2", 1), ("coords", 1),
                 ("levelling", 1), ("levelling3", 1), ("vectors", 1), ("vectors1", 1), ("polar3d", 1), ("polar3d-ih", 2),
                 ("polar3d-ihmix", 1), ("polar3d-ihneg", 1), ("polar3d-ihpos", 1), ("free3d", 1), ("free3d-ihneg", 1),
                 ("free3d-ihpos", 1), ("tower3d", 1), ("tower3d-ihneg", 1), ("tower3d-ihpos", 1), ("towerst-ihneg", 1),
                 ("towerst-ihpos", 1), ("trig3d", 1), ("trig3d-ih", 2), ("chain3d", 1), ("traverse3", 1), ("vecmix", 1),
                 ("azi3d", 2), ("levtrig", 2), ("levvec", 1), ("orient", 1), ("orient", 1, None, {"frames": [("en", "right-handed"), ("sw", "right-handed")]}),
                 ("aziframe", 1, None, {"frames": ALLF, "idrev": IDS}),
                 ("polar", 1, None, {"frames": ALLF[1:]}), ("azi3d", 1, None, {"frames": HALF[1:5], "idrev": [True]}),
                 ("intersection", 1, None, {"frames": HALF[1:], "idrev": IDS}),
                 ("vecmix", 1, 6, {"frames": [("sw", "left-handed"), ("se", "left-handed")]}),
                 ("coords", 1, None, {"frames": [("ws", "right-handed"), ("nw", "left-handed")]})],
}


def placements(t):
    roles = [r[0] for r in t["roles"]]
    if "fixed" in t: return [dict(t["fixed"])]
    out = []
    if t["dim"] == 1:
        return [dict((r, (0, 0)) for r in roles)]
    for comb in itertools.permutations(LAT, len(roles)):
        I = dict(zip(roles, comb))
        if t["pred"](I): out.append(I)
    return out


def heights(t, j):
    """height of every role for placement number j"""
    roles = t["roles"]
    z = {}
    if t["dim"] == 2:
        return dict((r[0], 0) for r in roles)
    if t["dim"] == 1:
        zl = (0, 10, 30, 20, 40)
        return dict((r[0], zl[(i + j) % 5] + (3 * i if i > 2 else 0)) for i, r in enumerate(roles))
    if t.get("zrule") == "chain":
        zl = (0, 10, 30, 20, 40)
        return dict((r[0], zl[(i + j) % 5]) for i, r in enumerate(roles))
    if t.get("zrule") == "tower":
        lo = (0, 10); fi = 0
        for r in roles:
            if r[1] == "fix": z[r[0]] = lo[(fi + j) % 2]; fi += 1
            else: z[r[0]] = 330
        return z
    if t.get("zrule") == "steep":
        # slope observations must carry height information: fixed points low, new points high (or reverse)
        lo = (0, 10); hi = (30, 30)
        fi = 0; ni = 0
        for r in roles:
            if r[1] == "fix": z[r[0]] = lo[(fi + j) % 2]; fi += 1
            else: z[r[0]] = hi[ni % 2] if (ni % 2 == 0) else 0; ni += 1
        return z
    return dict((r[0], ZL[(i + j) % 3]) for i, r in enumerate(roles))


def make_unit(name, j, n, nc=None, frame=None, idrev=False):
    """j-th of n evenly spaced placements of template `name` (first nc candidates),
    written in the coordinate frame `frame` = (axes-xy, angles); idrev: the new
    points are renamed (prefix "0") so that their ids sort before the known ones"""
    t = TPL[name]
    pl = placements(t)
    M = len(pl)
    idx = min(M - 1, int((j + 0.5) * M / n))
    I = pl[idx]
    z = heights(t, j)
    ren = {}
    if idrev:
        for r in t["roles"]:
            if r[1] != "fix": ren[r[0]] = "0" + r[0]
    rn = lambda v: ren.get(v, v) if isinstance(v, str) else v
    pts = [(rn(r[0]), (I[r[0]][0], I[r[0]][1], z[r[0]]), r[1]) for r in t["roles"]]
    cands = []
    for c in list(t["cands"])[:nc]:
        if c[0] == "xyz": cands.append((c[0], rn(c[1]), c[2]))
        elif c[0] == "azi": cands.append((c[0], rn(c[1]), rn(c[2])) + tuple(c[3:]))
        elif c[0] in ("sd", "za"): cands.append((c[0], rn(c[1]), rn(c[2])) + tuple(c[3:]))
        else: cands.append((c[0],) + tuple(rn(v) for v in c[1:]))
    u = Unit(name, t["dim"], pts, cands)
    u.placement = (j, n, idx, M)
    u.zsplit = bool(t.get("zsplit"))
    if frame: u.frame = tuple(frame)
    u.idrev = bool(idrev)
    return u


def units(tier):
    """unit keys (name, j, n, nc, frame, idrev); a tier entry is (name, placements
    [, candidates [, options]]), options: frames = list of (axes, angles),
    idrev = list of booleans; the product of the options is taken"""
    out = []
    only = os.environ.get("C06_ONLY")          # debugging aid, never set by registered commands
    for e in TIERS[tier]:
        name, n = e[0], e[1]
        nc = e[2] if len(e) > 2 else None
        opt = e[3] if len(e) > 3 else {}
        if only and name not in only.split(","): continue
        t = TPL[name]
        M = len(placements(t))
        for fr in opt.get("frames", [None]):
            for ir in opt.get("idrev", [False]):
                for j in range(min(n, M)):
                    out.append((name, j, min(n, M), nc, tuple(fr) if fr else None, ir))
    return out
